"""C17 — sorting and set functions meet their mathematical contracts.

Permutation / orderedness / set algebra are value-level and NOT decided.  Decided clause:
  R1  tie-breaking and advance tables of the explicit-state sort / min / max / set-walk handlers,
      as finite decision tables over the popped `Ordering`:
        merge:      the left run's element is taken on {Less, Equal}              (stability)
        partition:  an element goes before the pivot on {Less} only               (stability)
        minArray:   the best element is replaced on {Greater} only; maxArray on {Less} only (first wins)
        set walks:  (advance a, advance b, emit) per ordering for inter / union / diff
"""
import re
from . import kwalk, evalmarks as em, prov
from .facts import callee_name

EXPLANATION = (
    "Static analysis of MIR: each handler is walked once per popped Ordering (and with concrete "
    "cursor values where cursors are arguments); on every CFG path the cursor updates, the run the "
    "emitted element is read from, the bucket an element is pushed to and the continuation state's "
    "payload are collected and compared with the tie-break table of the contract."
)

ORD = ["Less", "Equal", "Greater"]
E = em.EVAL


def _touch_marks(extra=None):
    """on_stmt producing ("touch", key) for reads through `*<arg>` tuple fields (key like '5.^.1')."""
    pat = re.compile(r"^\d+\.\^\.\d+$")

    def on_stmt(w, bb, idx, s, env):
        if s["k"] != "assign":
            return None
        rv = s["rv"]
        if rv["k"] == "use" and rv["x"]["k"] in ("copy", "move"):
            key = w.norm(env, rv["x"])
            m = re.match(r"^(\d+\.\^\.\d+)", key)
            if m and key != m.group(1) or (m and pat.match(key)):
                return ("touch", m.group(1))
        return None
    return on_stmt


def _walk(F, rep, fn, *, ords=(), env=None, arith=False, extra_term=None, on_stmt=None, extra_hook=None,
          dedupe=False):
    rep.fn(fn)
    body = fn.body
    m = em.Marker(F, body, 1, True, extra_term=extra_term)
    m.full = True

    def stmt_cb(w, bb, idx, s, e):
        if on_stmt:
            r = on_stmt(w, bb, idx, s, e)
            if r is not None:
                return r
        return m.on_stmt(w, bb, idx, s, e)
    w = kwalk.Walker(F, body, on_term=m.on_term, on_stmt=stmt_cb, ordered_marks=True, arith=arith,
                     call_result=em.injector(F, body, ords=ords, extra=extra_hook), want_ret=True,
                     max_marks=40, dedupe_marks=dedupe)
    outs = w.run(0, dict(env or {}))
    rep.states += w.states_explored
    return outs


def _cellset_term(w, bb, t, env):
    if t["k"] == "call":
        n = callee_name(t) or ""
        if n == "<core::cell::Cell>::set":
            v = w.val(env, t["xs"][0])
            if isinstance(v, tuple) and v[0] == "ref":
                return ("cellset", v[1])
    return None


def usize_args(body):
    return [l for l in range(2, body.argc + 1) if body.local_ty(l)["s"] == "usize"]


def rule_merge(F, rep, R):
    post = F.fn("<%s>::do_std_sort_merge_post_compare" % E)
    pre = F.fn("<%s>::do_std_sort_merge_pre_compare" % E)
    prep = F.fn("<%s>::do_std_sort_merge_prepare" % E)
    # which argument is the unmerged tuple: Rc<(Cell, Box<[usize]>, Cell, Box<[usize]>)>
    def unmerged_arg(fn):
        for l in range(2, fn.body.argc + 1):
            s = fn.body.local_ty(l)["s"]
            if s.startswith("std::rc::Rc<(") and s.count("Cell<usize>") == 2:
                return l
        raise kwalk.WalkLimit("%s: unmerged argument not found" % fn.q)
    ua = unmerged_arg(post)
    table = {}
    for o in ORD:
        outs = _walk(F, rep, post, ords=[o], extra_term=_cellset_term, on_stmt=_touch_marks())
        sets = set()
        touches = set()
        for oc in outs:
            sets |= {m[1] for m in oc[1] if m[0] == "cellset" and m[1].startswith("%d.^." % ua)}
            touches |= {m[1] for m in oc[1] if m[0] == "touch" and m[1].startswith("%d.^." % ua)}
        table[o] = (frozenset(k.rsplit(".", 1)[1] for k in sets), frozenset(k.rsplit(".", 1)[1] for k in touches))
    # pre_compare: the run whose element is pushed first is the comparison's left operand
    up = unmerged_arg(pre)
    outs = _walk(F, rep, pre, on_stmt=_touch_marks())
    first_runs = set()
    for oc in outs:
        seq = [m for m in oc[1] if (m[0] == "touch" and m[1].startswith("%d.^." % up)) or (m[0] == "push" and m[1] == "value_stack")]
        npush = sum(1 for m in seq if m[0] == "push")
        if npush != 2:
            continue
        runs = []
        for m in seq:
            if m[0] == "touch" and m[1].rsplit(".", 1)[1] in ("1", "3"):
                runs.append(m[1].rsplit(".", 1)[1])
            elif m[0] == "push":
                runs.append("|")
        txt = "".join(runs)
        # e.g. "11|33|" : elements of run 1 read before first push
        first = txt.split("|")[0]
        second = txt.split("|")[1] if txt.count("|") >= 2 else ""
        if first and second:
            first_runs.add((first[-1], second[-1]))
    ok_pre = len(first_runs) == 1
    if not ok_pre:
        rep.ob(R, "merge|compare-operands", False)
        rep.violation(R, "do_std_sort_merge_pre_compare|operands", "cannot identify which run supplies the left "
                      "operand of the merge comparison (%s)" % sorted(first_runs), pre.loc)
        return
    lrun, rrun = next(iter(first_runs))
    lcur = str(int(lrun) - 1)
    rcur = str(int(rrun) - 1)
    rep.ob(R, "merge|compare-operands", True, {"left_operand_run_field": lrun, "right_operand_run_field": rrun})
    # prepare: the left operand's run is the earlier half [range.start, mid)
    P = prov.Prov(F, prep.body)
    mid_l = [l for l in range(2, prep.body.argc + 1) if prep.body.local_ty(l)["s"] == "usize"]
    ok_prep = False
    detail = None
    for bb, si, s in prep.body.assigns():
        rv = s["rv"]
        if rv["k"] == "agg" and rv["ak"] == "tuple" and len(rv["xs"]) == 4:
            from .c08 import _deep_origins
            o_l = _deep_origins(P, rv["xs"][int(lrun)])
            o_r = _deep_origins(P, rv["xs"][int(rrun)])
            # the Range aggregates feeding each: look at Range aggregates in the body and their operands
            detail = (sorted(map(str, o_l))[:6], sorted(map(str, o_r))[:6])
    ranges = []
    for bb, si, s in prep.body.assigns():
        rv = s["rv"]
        if rv["k"] == "agg" and rv["ak"] == "adt" and rv["adt"] == "core::ops::range::Range":
            so = P.origins_op(rv["xs"][0])
            eo = P.origins_op(rv["xs"][1])
            ranges.append((bb, so, eo))
    ranges.sort(key=lambda r: r[0])
    if len(ranges) == 2 and mid_l:
        m = ("arg", mid_l[0], ())
        first_is_low = m in ranges[0][2] and m in ranges[1][1]
        # the first range (by CFG order) feeds the first collected run; tuple operand order follows
        # construction order `(Cell, left, Cell, right)`: check left operand comes from the first collect
        ok_prep = first_is_low and int(lrun) < int(rrun)
    rep.ob(R, "merge|left-run-is-earlier-half", ok_prep, {"ranges": [(sorted(map(str, a)), sorted(map(str, b))) for _, a, b in ranges]})
    if not ok_prep:
        rep.violation(R, "do_std_sort_merge_prepare|halves", "the merge comparison's left operand run is not the "
                      "earlier half [start, mid) of the range", prep.loc)
    for o in ORD:
        sets, touches = table[o]
        take_left = o in ("Less", "Equal")
        exp_set = {lcur} if take_left else {rcur}
        exp_touch_has = lrun if take_left else rrun
        exp_touch_not = rrun if take_left else lrun
        ok = sets == exp_set and exp_touch_has in touches and exp_touch_not not in touches
        rep.ob(R, "merge|%s" % o, ok, {"ordering": o, "cursor_advanced_field": sorted(sets), "run_fields_read": sorted(touches),
                                       "expected": "left run" if take_left else "right run"})
        if not ok:
            rep.violation(R, "do_std_sort_merge_post_compare|%s" % o,
                          "merge step on ordering %s advances cursor field(s) %s and reads run field(s) %s; a stable "
                          "merge must take from the %s run" % (o, sorted(sets), sorted(touches), "left" if take_left else "right"),
                          post.loc)


def rule_partition(F, rep, R):
    fn = F.fn("<%s>::do_std_sort_quick_sort_2" % E)
    body = fn.body

    def hook_for(o):
        def hook(w, bb, t, env, args):
            dty = w.body.ty(t["dst"]["t"])
            if dty["k"] == "adt" and dty["d"] == em.OPTION and dty["a"]:
                inner = w.body.ty(dty["a"][0])
                # Option<(usize, Ordering)> from Enumerate<Drain<Ordering>>::next, or Option<Ordering>
                if "cmp::Ordering" in inner["s"]:
                    i = env.get("#next", 0)
                    env["#next"] = i + 1
                    dst = w.norm(env, t["dst"])
                    if i == 0:
                        if inner["k"] == "tuple":
                            env["%s@Some.0.1" % dst] = ("var", em.ORDERING, o)
                        else:
                            env["%s@Some.0" % dst] = ("var", em.ORDERING, o)
                        return ("var", em.OPTION, "Some")
                    return ("var", em.OPTION, "None")
            return None
        return hook

    def term(w, bb, t, env):
        if t["k"] == "call":
            n = callee_name(t) or ""
            if n == "<alloc::vec::Vec>::push":
                v = w.val(env, t["xs"][0])
                if isinstance(v, tuple) and v[0] == "ref" and v[1].isdigit():
                    return ("lpush", int(v[1]))
            if n in ("<alloc::vec::Vec as core::ops::deref::Deref>::deref", "<[T]>::iter", "<alloc::vec::Vec>::iter"):
                v = w.val(env, t["xs"][0])
                if isinstance(v, tuple) and v[0] == "ref" and v[1].isdigit():
                    return ("liter", int(v[1]))
        return None
    res = {}
    order = None
    for o in ORD:
        outs = _walk(F, rep, fn, extra_term=term, extra_hook=hook_for(o), dedupe=True)
        buckets = set()
        for oc in outs:
            seq = [m for m in oc[1] if m[0] in ("lpush", "liter")]
            pushed = [m[1] for m in seq if m[0] == "lpush"]
            its = []
            for m in seq:
                if m[0] == "liter" and m[1] not in its:
                    its.append(m[1])
            if pushed:
                buckets |= set(pushed)
            if len(its) >= 2:
                order = tuple(its[:2]) if order is None or order == tuple(its[:2]) else "ambiguous"
        res[o] = buckets
    if not order or order == "ambiguous":
        rep.ob(R, "partition|bucket-order", False)
        rep.violation(R, "do_std_sort_quick_sort_2|buckets", "cannot identify the before/after-pivot buckets", fn.loc)
        return
    before, after = order
    for o in ORD:
        exp = {before} if o == "Less" else {after}
        ok = res[o] == exp
        rep.ob(R, "partition|%s" % o, ok, {"ordering": o, "bucket_local": sorted(res[o]), "before_pivot_bucket": before, "after": after})
        if not ok:
            rep.violation(R, "do_std_sort_quick_sort_2|%s" % o,
                          "partition puts an element comparing %s to the pivot into bucket %s; stability needs %s "
                          "(before-pivot only on Less)" % (o, sorted(res[o]), sorted(exp)), fn.loc)


def rule_minmax(F, rep, R):
    for name, replace_on in (("min", "Greater"), ("max", "Less")):
        fn = F.fn("<%s>::do_std_%s_array_check_item" % (E, name))
        us = usize_args(fn.body)
        if len(us) != 2:
            raise kwalk.WalkLimit("%s: expected (cur_index, best_index)" % fn.q)
        cur, best = us
        P = prov.Prov(F, fn.body)
        for o in ORD:
            def term(w, bb, t, env):
                if t["k"] == "call":
                    n = callee_name(t) or ""
                    if n == "<alloc::vec::Vec>::remove":
                        org = P.origins_op(t["xs"][1], through_arith=True)
                        ks = sorted(x[1] for x in org if x[0] == "const")
                        return ("remove", tuple(ks))
                return None
            outs = _walk(F, rep, fn, ords=[o], env={str(cur): 5, str(best): 3}, arith=True, extra_term=term)
            bests = set()
            removes = set()
            for oc in outs:
                if em.is_err_return(oc):
                    continue
                for m in oc[1]:
                    if m[0] == "push" and m[1] == "state_stack" and isinstance(m[2], tuple) and m[2][0].startswith("Std"):
                        pay = dict(m[2][1]) if isinstance(m[2][1], tuple) else {}
                        bests.add(tuple(sorted(pay.items())))
                    if m[0] == "remove":
                        removes.add(m[1])
            replaced = o == replace_on
            exp_best = 5 if replaced else 3
            # continuation payload must carry (cur+1, best')
            ok_b = bool(bests) and all((6 in dict(b).values()) and (exp_best in dict(b).values()) and
                                       ((3 if replaced else 5) not in dict(b).values()) for b in bests)
            exp_rm = {(2,)} if replaced else {(1,)}
            ok_r = removes == exp_rm
            ok = ok_b and ok_r
            rep.ob(R, "%sArray|%s" % (name, o), ok, {"ordering": o, "continuation_payload": sorted(map(str, bests)),
                                                    "removed_key_offset_from_top": sorted(map(str, removes)),
                                                    "best_replaced_expected": replaced})
            if not ok:
                rep.violation(R, "do_std_%s_array_check_item|%s" % (name, o),
                              "%sArray on ordering %s: continuation carries %s, removes key at len-%s; the first %s "
                              "element must win (replace only on %s)" % (name, o, sorted(map(str, bests)), sorted(removes),
                                                                          "minimal" if name == "min" else "maximal", replace_on),
                              fn.loc)


SET_TABLE = {
    "inter": {"Less": (1, 0, 0), "Equal": (1, 1, 1), "Greater": (0, 1, 0)},
    "union": {"Less": (1, 0, 1), "Equal": (1, 1, 1), "Greater": (0, 1, 1)},
    "diff": {"Less": (1, 0, 1), "Equal": (1, 1, 0), "Greater": (0, 1, 0)},
}


def rule_sets(F, rep, R):
    for name, tab in SET_TABLE.items():
        fn = F.fn("<%s>::do_std_set_%s_aux" % (E, name))
        us = usize_args(fn.body)
        if len(us) != 2:
            raise kwalk.WalkLimit("%s: expected cursors (i, j)" % fn.q)
        ia, ja = us
        for o in ORD:
            def term(w, bb, t, env):
                if t["k"] == "call":
                    n = callee_name(t) or ""
                    if n == "<alloc::vec::Vec>::push":
                        ety = w.body.ty(t["xs"][1]["t"])["s"] if "t" in t["xs"][1] else ""
                        v = w.val(env, t["xs"][0])
                        if "ThunkData" in ety and not (isinstance(v, tuple) and v[0] == "ref" and v[1].startswith("1.*.")):
                            return ("emit",)
                return None
            outs = _walk(F, rep, fn, ords=[o], env={str(ia): 5, str(ja): 9}, arith=True, extra_term=term)
            seen = set()
            for oc in outs:
                if em.is_err_return(oc) or oc[0].startswith("diverge") or oc[0] == "unreachable":
                    continue            # error returns and panics (a failed debug_assert!) are not steps of the walk
                emits = sum(1 for m in oc[1] if m == ("emit",))
                cont = None
                for m in oc[1]:
                    if m[0] == "push" and m[1] == "state_stack" and isinstance(m[2], tuple) and m[2][0].startswith("StdSet"):
                        pay = dict(m[2][1]) if isinstance(m[2][1], tuple) else {}
                        ints = [v for v in pay.values() if isinstance(v, int)]
                        cont = tuple(sorted(ints))
                seen.add((emits, cont))
            di, dj, em_n = tab[o]
            exp_cont = tuple(sorted([5 + di, 9 + dj]))
            # paths: continue with (i', j') or finish (cont None); emission count must match on all
            ok = bool(seen) and all(e == em_n for e, _ in seen) and all(c in (None, exp_cont) for _, c in seen) \
                and any(c == exp_cont for _, c in seen)
            rep.ob(R, "set%s|%s" % (name, o), ok, {"ordering": o, "paths(emits, next cursors)": sorted(map(str, seen)),
                                                  "expected": "emit %d, cursors -> %s" % (em_n, exp_cont)})
            if not ok:
                rep.violation(R, "do_std_set_%s_aux|%s" % (name, o),
                              "std.set%s walk on ordering %s: (emitted, next cursors) = %s; the contract needs emit=%d and "
                              "cursors (i+%d, j+%d)" % (name.capitalize(), o, sorted(map(str, seen)), em_n, di, dj), fn.loc)


def rule_member(F, rep):
    R = rep.rule("C17.R2", "std.setMember's binary search halves the right way: on Equal the answer is true; on Less (the "
                 "element sorts before the probe) it continues in [start, mid-1] or answers false when mid == start; on Greater "
                 "it continues in [mid+1, end] or answers false when mid == end; the probe is start + (end-start)/2")
    chk = F.fn("<%s>::do_std_set_member_check" % E)
    us = usize_args(chk.body)
    if len(us) != 3:
        raise kwalk.WalkLimit("do_std_set_member_check: expected (start, end, mid)")
    names = chk.body.local_names()
    byname = {names.get(l): l for l in us}
    if not {"start", "end", "mid"} <= set(byname):
        # renamed parameters: fall back to their declaration order (start, end, mid)
        byname = {"start": us[0], "end": us[1], "mid": us[2]}
    cases = [(2, 9, 5), (5, 9, 5), (2, 5, 5), (5, 5, 5)]
    for o in ORD:
        for (st_, en, mid) in cases:
            outs = _walk(F, rep, chk, ords=[o], env={str(byname["start"]): st_, str(byname["end"]): en, str(byname["mid"]): mid}, arith=True)
            seen = set()
            for oc in outs:
                if em.is_err_return(oc) or oc[0] != "return":
                    continue
                res = None
                for m in oc[1]:
                    if m[0] == "push" and m[1] == "state_stack" and isinstance(m[2], tuple) and m[2][0] == "StdSetMemberSlice":
                        pay = dict(m[2][1]) if isinstance(m[2][1], tuple) else {}
                        res = ("slice", tuple(v for k, v in sorted(pay.items()) if isinstance(v, int)))
                    if m[0] == "push" and m[1] == "value_stack" and isinstance(m[2], tuple) and m[2][0] == "Bool":
                        pay = dict(m[2][1]) if isinstance(m[2][1], tuple) else {}
                        res = ("answer", pay.get(0))
                seen.add(res)
            if o == "Equal":
                exp = {("answer", 1)}
            elif o == "Less":
                exp = {("answer", 0)} if mid == st_ else {("slice", (st_, mid - 1))}
            else:
                exp = {("answer", 0)} if mid == en else {("slice", (mid + 1, en))}
            ok = seen == exp
            rep.ob(R, "setMember|%s|%d,%d,%d" % (o, st_, en, mid), ok, {"ordering": o, "start,end,mid": (st_, en, mid), "outcome": sorted(map(str, seen))})
            if not ok:
                rep.violation(R, "do_std_set_member_check|%s|%s" % (o, "edge" if mid in (st_, en) else "inner"),
                              "std.setMember with ordering %s at start=%d end=%d mid=%d: %s, binary search requires %s"
                              % (o, st_, en, mid, sorted(map(str, seen)), sorted(map(str, exp))), chk.loc)
    sl = F.fn("<%s>::do_std_set_member_slice" % E)
    us = usize_args(sl.body)
    names = sl.body.local_names()
    byname = {names.get(l): l for l in us}
    for (st_, en, want) in [(2, 9, 5), (3, 3, 3), (3, 4, 3), (0, 1, 0)]:
        outs = _walk(F, rep, sl, env={str(byname.get("start", us[0])): st_, str(byname.get("end", us[-1])): en}, arith=True)
        mids = set()
        for oc in outs:
            for m in oc[1]:
                if m[0] == "push" and m[1] == "state_stack" and isinstance(m[2], tuple) and m[2][0] == "StdSetMemberCheck":
                    pay = dict(m[2][1]) if isinstance(m[2][1], tuple) else {}
                    ints = tuple(v for k, v in sorted(pay.items()) if isinstance(v, int))
                    mids.add(ints)
        ok = mids == {(st_, en, want)}
        rep.ob(R, "setMember|probe|%d,%d" % (st_, en), ok, {"start,end": (st_, en), "(start,end,mid)": sorted(map(str, mids))})
        if not ok:
            rep.violation(R, "do_std_set_member_slice|probe", "probe for [%d, %d] is %s, expected mid=%d" % (st_, en, sorted(map(str, mids)), want), sl.loc)


def rule_pivot(F, rep):
    R = rep.rule("C17.R3", "the partition of std.sort is stable because its pivot is the first element of the slice: the step "
                 "that starts a partition (do_std_sort_quick_sort_1) does not move any element (no swap / set on the permutation "
                 "cells) and hands the slice's first index on as the pivot")
    fn = F.fn("<%s>::do_std_sort_quick_sort_1" % E)
    rep.fn(fn)
    moved = [(callee_name(t) or "", fn.body.span(t["sp"])) for _, t in fn.body.calls()
             if (callee_name(t) or "") in ("<core::cell::Cell>::swap", "<core::cell::Cell>::set", "<core::cell::Cell>::replace",
                                           "<[T]>::swap", "core::mem::swap")]
    ok = not moved
    rep.ob(R, "quick_sort_1|no-permutation", ok, {"moving_calls": [m[0] for m in moved]})
    for n, site in moved:
        rep.violation(R, "do_std_sort_quick_sort_1|moves-elements", "do_std_sort_quick_sort_1 calls %s before partitioning: with a "
                      "pivot other than the first element, elements equal to it change their relative order" % n, site)


def _deps(body, defs, names, l, seen=None):
    """user variables a local is computed from (through arithmetic, copies, tuple fields and `.get()` / `.len()` calls)"""
    seen = seen if seen is not None else set()
    if l in seen:
        return set()
    seen.add(l)
    out = set()
    ty = body.local_ty(l)
    if l in names:
        out.add(names[l])
        if ty["k"] == "ref" or l <= body.argc:
            return out
    d = defs.get(l, [])
    if len(d) != 1:
        return out
    rv = d[0]

    def op(x):
        if isinstance(x, dict) and x.get("k") in ("move", "copy"):
            return _deps(body, defs, names, x["l"], seen)
        return set()
    k = rv["k"]
    if k in ("use", "cast", "unop"):
        out |= op(rv.get("x") or rv.get("a"))
    elif k == "binop":
        out |= op(rv["a"]) | op(rv["b"])
    elif k == "ref":
        out |= _deps(body, defs, names, rv["p"]["l"], seen)
    elif k == "agg":
        for x in rv["xs"]:
            out |= op(x)
    elif k == "callres":
        # only scalar getters carry a dependency; an iterator item (`enumerate().next()`) is not "computed from" the cursor
        f = rv.get("f") or ""
        if f.endswith("Cell>::get") or f.endswith("::len") or f.endswith("Deref>::deref"):
            for x in rv["xs"]:
                out |= op(x)
    return out


def rule_flush(F, rep):
    from . import cfg
    R = rep.rule("C17.R4", "when a sort step copies the rest of a run (`run[cursor..]`) into the output, the output position is "
                 "computed from that run's cursor: the number of items already taken from the run decides where its rest goes, so "
                 "an index that does not depend on the cursor overwrites merged items")
    n = 0
    for fn in F.fn_list:
        if fn.body is None or "do_std_sort" not in fn.q or "::{closure" in fn.q:
            continue
        body = fn.body
        names = body.local_names()
        defs = {}
        for bi, blk in enumerate(body.blocks):
            if blk["cleanup"]:
                continue
            for st in blk["s"]:
                if st["k"] == "assign" and not st["p"]["p"]:
                    defs.setdefault(st["p"]["l"], []).append(st["rv"])
            t = blk["t"]
            if t["k"] == "call" and not t["dst"]["p"]:
                defs.setdefault(t["dst"]["l"], []).append({"k": "callres", "xs": t["xs"], "f": callee_name(t)})
        # sites: RangeFrom { start } aggregates
        sites = []
        for bi, blk in enumerate(body.blocks):
            if blk["cleanup"]:
                continue
            for st in blk["s"]:
                if st["k"] == "assign" and st["rv"]["k"] == "agg" and st["rv"].get("adt", "").endswith("ops::range::RangeFrom"):
                    x = st["rv"]["xs"][0]
                    if x.get("k") in ("move", "copy"):
                        cur = {nm for nm in _deps(body, defs, names, x["l"])}
                        def is_cell_ref(l):
                            t = body.local_ty(l)
                            if t["k"] != "ref":
                                return False
                            t2 = body.ty(t["t"]) if "t" in t else None
                            return bool(t2) and t2["k"] == "adt" and t2.get("d") == "core::cell::Cell"
                        cursors = {nm for nm in cur if any(names.get(l) == nm and is_cell_ref(l) for l in names)}
                        if cursors:
                            sites.append((bi, cursors))
        stops = [b for b, _ in sites]
        for bi, cursors in sites:
            region = cfg.reachable(body.succ_map(), [bi], blocked_nodes=[b for b in stops if b != bi])
            for b in sorted(region):
                t = body.blocks[b]["t"]
                if body.blocks[b]["cleanup"] or t["k"] != "call" or not (callee_name(t) or "").endswith("Cell>::set"):
                    continue
                # receiver: result of an Index::index call; its index argument
                recv = t["xs"][0]
                idx_deps = None
                l = recv.get("l")
                for _ in range(6):
                    d = defs.get(l, [])
                    if len(d) != 1:
                        break
                    rv = d[0]
                    if rv["k"] == "callres" and (rv.get("f") or "").endswith("Index>::index"):
                        ix = rv["xs"][1]
                        idx_deps = _deps(body, defs, names, ix["l"]) if ix.get("k") in ("move", "copy") else set()
                        break
                    if rv["k"] in ("use", "cast") and rv["x"].get("k") in ("move", "copy"):
                        l = rv["x"]["l"]
                        continue
                    if rv["k"] == "ref":
                        l = rv["p"]["l"]
                        continue
                    break
                if idx_deps is None:
                    continue
                n += 1
                missing = sorted(cursors - idx_deps)
                ok = not missing
                rep.ob(R, "%s|flush@bb%d" % (fn.q, b), ok, {"fn": fn.q, "run_cursor": sorted(cursors), "index_depends_on": sorted(idx_deps)})
                if not ok:
                    rep.violation(R, "%s|flush-index-ignores|%s" % (fn.q, ",".join(missing)),
                                  "%s copies the rest of a run starting at cursor %s, but the output index is computed from %s only: "
                                  "items already taken from that run are not accounted for and merged entries are overwritten"
                                  % (fn.q, "/".join(missing), sorted(idx_deps)), fn.loc)
    rep.floor(R, n, 2, "run-flush copy loops")


def run(F, rep, tier):
    R = rep.rule("C17.R1", "tie-break / advance decision tables of merge, partition, minArray, maxArray and the set "
                 "walks equal the ones the contracts require (stability, first-minimal/maximal, union/inter/diff)")
    rep.attempt(rule_merge, F, rep, R)
    rep.attempt(rule_partition, F, rep, R)
    rep.attempt(rule_minmax, F, rep, R)
    rep.attempt(rule_sets, F, rep, R)
    rep.floor(R, rep.rules[R]["obligations"], 20, "table rows")
    rep.attempt(rule_member, F, rep)
    rep.attempt(rule_pivot, F, rep)
    rep.attempt(rule_flush, F, rep)
    from . import c08
    rep.attempt(c08.rule_r4, F, rep)      # the ordering primitive the sort/set walks pop their `Ordering` from: array state machines
    rep.attempt(c08.rule_r4b, F, rep)
    rep.assume("permutation, orderedness and set algebra over values are not decided (value-level); the comparison "
               "itself is C08; spurious stack-overflow of the key loops is C10")
    return EXPLANATION
