"""ENVFLOW — which static environment each syntactic position is analysed in (analyzer, AST -> IR).

For every call of analyze_expr / analyze_function / analyze_objinside / analyze_assert /
analyze_comp_spec inside the analyzer:
  * the child is identified by the chain of AST fields it is projected from (ADT . variant . field),
  * the environment argument by an abstract value: the function's own `env` parameter ("inherit"), or a
    local Env with its creation (clone of what / comp-spec result), the binder lists inserted into it
    (by AST path of the inserted name; "all" when the insertion loop completes before the call,
    "previous" when the insertion follows the call inside the same loop) and whether is_obj was set.
"""
from . import prov, cfg
from .facts import callee_name, pk

A = "rsjsonnet_lang::program::analyze::Analyzer"
ENV = "rsjsonnet_lang::program::analyze::Env"
ANALYZE = ("analyze_expr", "analyze_function", "analyze_objinside", "analyze_assert", "analyze_comp_spec")


def short(adt):
    return adt.rsplit("::", 1)[1]


class FnEnvFlow:
    def __init__(self, F, fn):
        self.F = F
        self.fn = fn
        self.body = fn.body
        self.P = prov.Prov(F, fn.body)
        self.succ = self.body.succ_map()
        self.pred = self.body.pred_map()
        self.dom = cfg.dominators(self.succ, 0)
        self.loops = []
        for tail, head in cfg.back_edges(self.succ, 0):
            self.loops.append((head, cfg.natural_loop(self.succ, self.pred, tail, head)))
        # the explicit-stack loop of analyze_expr contains everything: ignore loops that contain the
        # majority of blocks (state machine), keep per-list loops
        nblocks = len([b for b in self.body.blocks if not b["cleanup"]])
        self.loops = [(h, l) for h, l in self.loops if len(l) < nblocks * 0.5]

    # ---- AST path of an operand -------------------------------------------------------------------
    def ast_path(self, op, depth=0):
        """tuple of 'Adt.field' / 'Adt::Variant.field' from outermost to innermost, following defs"""
        if op["k"] not in ("copy", "move") or depth > 14:
            return ()
        body = self.body
        tys = prov.place_types(body, op)
        here = []
        projs = op["p"]
        for i, p in enumerate(projs):
            if p != "*" and p["k"] == "f":
                base = tys[i]
                if base["k"] == "adt" and base["d"].startswith("rsjsonnet_lang::ast::"):
                    nm = p["n"]
                    if i > 0 and projs[i - 1] != "*" and projs[i - 1]["k"] == "d":
                        nm = "%s.%s" % (projs[i - 1]["v"], p["n"])
                    here.append("%s.%s" % (short(base["d"]), nm))
                elif base["k"] == "tuple":
                    here.append("#%d" % p["i"])
        l = op["l"]
        ds = [d for d in self.P.defs.get(l, []) if d[0] != "partial"]
        pre = ()
        if 1 <= l <= body.argc and not ds:
            pre = ("arg%d" % l,)
        elif len(ds) >= 1:
            # all defs should agree; take the first that yields a path
            for d in ds:
                if d[0] == "call":
                    t = d[3]
                    n = callee_name(t) or ""
                    if prov.is_pass_through(n) or n.endswith("::split_first") or n.endswith("::chain") or n.endswith("::as_ref") \
                            or n.endswith("Iterator::enumerate") or n.endswith("::iter"):
                        if t["xs"] and t["xs"][0]["k"] in ("copy", "move"):
                            pre = self.ast_path(t["xs"][0], depth + 1)
                            if n.endswith("::chain") and len(t["xs"]) > 1:
                                pre = pre + ("|",) + self.ast_path(t["xs"][1], depth + 1)
                    else:
                        pre = ("call:" + n.rsplit("::", 1)[1],)
                else:
                    rv = d[3]["rv"]
                    if rv["k"] in ("use", "cast"):
                        pre = self.ast_path(rv["x"], depth + 1) if rv["x"]["k"] in ("copy", "move") else ()
                    elif rv["k"] in ("ref", "rawptr"):
                        x = dict(rv["p"])
                        x["k"] = "copy"
                        pre = self.ast_path(x, depth + 1)
                if pre:
                    break
        return tuple(pre) + tuple(here)

    # ---- environments ------------------------------------------------------------------------------
    def env_root(self, op, depth=0):
        """('param', n) or ('local', n) the &Env operand refers to"""
        if op["k"] not in ("copy", "move") or depth > 8:
            return None
        body = self.body
        l = op["l"]
        t = body.local_ty(l)
        if t["k"] == "adt" and t["d"] == ENV:
            return ("local", l)
        ds = [d for d in self.P.defs.get(l, []) if d[0] != "partial"]
        if 1 <= l <= body.argc and not ds:
            return ("param", l)
        for d in ds:
            if d[0] == "assign":
                rv = d[3]["rv"]
                if rv["k"] in ("ref", "rawptr"):
                    pl = rv["p"]
                    bt = body.local_ty(pl["l"])
                    if bt["k"] == "adt" and bt["d"] == ENV and not [p for p in pl["p"] if p != "*"]:
                        return ("local", pl["l"])
                    if bt["k"] == "tuple" and pl["p"] and pl["p"][0] != "*" and pl["p"][0]["k"] == "f":
                        return ("local-tuple", pl["l"], pl["p"][0]["i"])
                    x = dict(pl)
                    x["k"] = "copy"
                    return self.env_root(x, depth + 1)
                if rv["k"] in ("use", "cast") and rv["x"]["k"] in ("copy", "move"):
                    return self.env_root(rv["x"], depth + 1)
        return None

    def env_locals(self):
        """local Env values: creation + mutations"""
        body = self.body
        out = {}
        for l, decl in enumerate(body.locals):
            t = body.ty(decl["t"])
            if t["k"] == "adt" and t["d"] == ENV and l > body.argc:
                out[l] = {"created": set(), "inserts": [], "is_obj": []}
        for bb, t in body.calls():
            n = callee_name(t) or ""
            dst = t["dst"]
            if not dst["p"] and dst["l"] in out:
                if n.endswith("core::clone::Clone>::clone"):
                    r = self.env_root(t["xs"][0])
                    out[dst["l"]]["created"].add(("clone", r, bb))
                else:
                    out[dst["l"]]["created"].add(("call:" + n.rsplit("::", 1)[1], None, bb))
            if n.endswith("HashSet>::insert") or n.endswith("::insert"):
                # receiver: &mut L.vars
                x = t["xs"][0]
                tgt = self._vars_of(x)
                if tgt is not None and tgt in out:
                    out[tgt]["inserts"].append((bb, self.ast_path(t["xs"][1])))
        for bb, si, s in body.assigns():
            p = s["p"]
            if p["l"] in out and len(p["p"]) == 1 and p["p"][0] != "*" and p["p"][0]["k"] == "f" and p["p"][0]["n"] == "is_obj":
                v = s["rv"]["x"].get("v") if s["rv"]["k"] == "use" else None
                out[p["l"]]["is_obj"].append((bb, v))
            # moves of a whole Env into another local (e.g. out of the comp-spec result tuple)
            if not p["p"] and p["l"] in out and s["rv"]["k"] == "use" and s["rv"]["x"]["k"] in ("copy", "move"):
                x = s["rv"]["x"]
                bt = body.local_ty(x["l"])
                if bt["k"] == "tuple" or (bt["k"] == "adt" and bt["d"] != ENV and x["p"]):
                    # out of the tuple / result struct of a call
                    src = None
                    for d in self.P.defs.get(x["l"], []):
                        if d[0] == "assign" and d[3]["rv"]["k"] == "use":
                            y = d[3]["rv"]["x"]
                            # (_r as Continue).0 of the `?` on analyze_comp_spec
                            src = self._call_behind(y)
                        if d[0] == "call":
                            src = (callee_name(d[3]) or "").rsplit("::", 1)[1]
                    summ = self._helper_env_summary(x["l"], bb)
                    if summ is not None:
                        out[p["l"]]["created"].add(("summary", summ, bb))
                    else:
                        out[p["l"]]["created"].add(("result-of", src, bb))
                elif bt["k"] == "adt" and bt["d"] == ENV:
                    out[p["l"]]["created"].add(("move", ("local", x["l"]), bb))
        return out

    def _call_term_behind(self, l, depth=0):
        """the call terminator whose result (through `?`) the local holds"""
        if depth > 6:
            return None
        for d in self.P.defs.get(l, []):
            if d[0] == "call":
                n = callee_name(d[3]) or ""
                if n.endswith("Try>::branch") and d[3]["xs"] and d[3]["xs"][0]["k"] in ("copy", "move"):
                    return self._call_term_behind(d[3]["xs"][0]["l"], depth + 1)
                return d[3]
            if d[0] == "assign" and d[3]["rv"]["k"] == "use" and d[3]["rv"]["x"]["k"] in ("copy", "move"):
                return self._call_term_behind(d[3]["rv"]["x"]["l"], depth + 1)
        return None

    def _helper_env_summary(self, l, bb, depth=0):
        """the environment a helper that did not exist on the reference tree hands back, described in the caller's terms"""
        t = self._call_term_behind(l)
        if t is None or depth > 2:
            return None
        q = t["f"].get("r") or callee_name(t) or ""
        if not q or q.rsplit("::", 1)[-1] in ANALYZE or not self.F.is_new_fn(q):
            return None
        g = self.F.fn_opt(q)
        if g is None or g.body is None:
            return None
        sub = FnEnvFlow(self.F, g)
        envs = sub.env_locals()
        # the Env local that is returned: moved into the return place (directly or inside Ok / a tuple)
        ret = None
        for b2, si, st in g.body.assigns():
            if st["p"]["l"] == 0:
                rv = st["rv"]
                ops = [rv["x"]] if rv["k"] == "use" else (rv["xs"] if rv["k"] == "agg" else [])
                for x in ops:
                    if x["k"] in ("copy", "move") and not x["p"] and x["l"] in envs:
                        ret = (x["l"], b2)
        if ret is None:
            return None
        desc = sub.describe_env(envs, ("local", ret[0]), ret[1])
        if not (isinstance(desc, tuple) and desc and desc[0] == "local"):
            return None
        def flat(d):
            # an environment moved through intermediate locals: merge the chain into one description
            _, bs, i, o = d
            bases, ins, obj = [], list(i), bool(o)
            for b in bs:
                if isinstance(b, tuple) and b and b[0] == "local":
                    b2, i2, o2 = flat(b)
                    bases.extend(b2)
                    ins.extend(i2)
                    obj = obj or o2
                else:
                    bases.append(b)
            return bases, ins, obj
        bases, ins, obj = flat(desc)
        # translate: the helper's own `inherit` base is the environment argument of this call; `argN` heads of binder paths are
        # the AST operands of this call
        envargs = [x for x in t["xs"] if "t" in x and "Env" in self.body.ty(x["t"])["s"]]
        base_root = self.env_root(envargs[0]) if envargs else None
        ins2 = []
        for how, path in ins:
            path = tuple(path)
            if path and isinstance(path[0], str) and path[0].startswith("arg") and path[0][3:].isdigit():
                i = int(path[0][3:])
                if 1 <= i <= len(t["xs"]):
                    path = tuple(self.ast_path(t["xs"][i - 1])) + path[1:]
            ins2.append((how, path))
        return (tuple(sorted(map(str, bases))) == ("('inherit',)",), base_root, tuple(sorted(ins2)), obj)

    def _call_behind(self, op, depth=0):
        if op["k"] not in ("copy", "move") or depth > 6:
            return None
        for d in self.P.defs.get(op["l"], []):
            if d[0] == "call":
                n = callee_name(d[3]) or ""
                if n.endswith("Try>::branch") and d[3]["xs"]:
                    return self._call_behind(d[3]["xs"][0], depth + 1)
                return n.rsplit("::", 1)[1]
            if d[0] == "assign" and d[3]["rv"]["k"] == "use":
                return self._call_behind(d[3]["rv"]["x"], depth + 1)
        return None

    def _vars_of(self, op):
        if op["k"] not in ("copy", "move"):
            return None
        for d in self.P.defs.get(op["l"], []):
            if d[0] == "assign" and d[3]["rv"]["k"] in ("ref", "rawptr"):
                pl = d[3]["rv"]["p"]
                if len(pl["p"]) == 1 and pl["p"][0] != "*" and pl["p"][0]["k"] == "f" and pl["p"][0]["n"] == "vars":
                    return pl["l"]
        return None

    def loop_of(self, bb):
        best = None
        for h, l in self.loops:
            if bb in l and (best is None or len(l) < len(best[1])):
                best = (h, l)
        return best

    def describe_env(self, envs, root, call_bb):
        if root is None:
            return ("?",)
        if root[0] == "param":
            return ("inherit",)
        if root[0] == "local-tuple":
            return ("comp-result",)
        l = root[1]
        e = envs.get(l)
        if e is None:
            return ("?",)
        base = []
        extra_ins = []
        extra_obj = False
        for c in sorted(e["created"], key=str):
            if c[0] == "clone":
                base.append(self.describe_env(envs, c[1], c[2]) if c[1] and c[1][0] != "param" else ("inherit",))
            elif c[0] == "result-of":
                base.append(("comp-result",))
            elif c[0] == "summary":
                plain, broot, sins, sobj = c[1]
                if plain:
                    base.append(self.describe_env(envs, broot, c[2]) if broot and broot[0] != "param" else ("inherit",))
                else:
                    base.append(("helper-env",))
                extra_ins.extend(sins)
                extra_obj = extra_obj or bool(sobj)
            elif c[0] == "move":
                d = self.describe_env(envs, c[1], c[2])
                if isinstance(d, tuple) and d and d[0] == "local" and len(d) == 4:
                    # the same environment under another local: merge instead of nesting
                    base.extend(d[1])
                    extra_ins.extend(d[2])
                    extra_obj = extra_obj or bool(d[3])
                else:
                    base.append(d)
            else:
                base.append((c[0],))
        ins = set()
        for ibb, path in e["inserts"]:
            lp = self.loop_of(ibb)
            if lp is not None and call_bb in lp[1]:
                # same loop: order inside one iteration
                if ibb in self.dom.get(call_bb, ()):    # insert before call in the iteration
                    ins.add(("incl-current", path))
                else:
                    ins.add(("previous", path))
            else:
                head = lp[0] if lp else ibb
                if head in self.dom.get(call_bb, ()):
                    ins.add(("all", path))
                else:
                    ins.add(("maybe", path))
        obj = any(v == 1 and bb in self.dom.get(call_bb, ()) for bb, v in e["is_obj"]) or extra_obj
        ins |= set(extra_ins)
        return ("local", tuple(sorted(set(base))), tuple(sorted(ins)), "obj" if obj else "")

    def rows(self, depth=0):
        envs = self.env_locals()
        out = []
        bodies = [(self.fn, self)]
        for bb, t in self.body.calls():
            n = callee_name(t) or ""
            if not n.startswith("<%s>::" % A):
                continue
            q = t["f"].get("r") or n
            if self.F.is_new_fn(q) and depth < 3 and self.F.fn_opt(q) is not None and self.F.fn_opt(q).body is not None:
                # a helper that did not exist on the reference tree: its hand-offs are listed as if they stood here, with its
                # parameters replaced by the arguments of this call
                sub = FnEnvFlow(self.F, self.F.fn_opt(q))
                for r in sub.rows(depth + 1):
                    child = r["child"]
                    if child and isinstance(child[0], str) and child[0].startswith("arg") and child[0][3:].isdigit():
                        i = int(child[0][3:])
                        if 1 <= i <= len(t["xs"]):
                            child = tuple(self.ast_path(t["xs"][i - 1])) + tuple(child[1:])
                    env = r["env"]
                    root = r.get("env_root")
                    if root is not None and root[0] == "param" and 1 <= root[1] <= len(t["xs"]):
                        env = self.describe_env(envs, self.env_root(t["xs"][root[1] - 1]), bb)
                    out.append({"fn": self.fn.q, "bb": bb, "callee": r["callee"], "child": child, "env": env,
                                "env_root": None, "site": self.body.span(t["sp"])})
                continue
            if not n.startswith("<%s>::analyze_" % A):
                continue
            child = self.ast_path(t["xs"][1])
            envop = [x for x in t["xs"] if "t" in x and "Env" in self.body.ty(x["t"])["s"]]
            root = self.env_root(envop[0]) if envop else None
            out.append({"fn": self.fn.q, "bb": bb, "callee": n.rsplit("::", 1)[1], "child": child,
                        "env": self.describe_env(envs, root, bb), "env_root": root, "site": self.body.span(t["sp"])})
        return out


def closure_rows(F, fn, parent_flow):
    """calls inside closures (`.map(|e| self.analyze_expr(e, env, ..))`): child = the Option the closure is
    mapped over (found at the parent's call site), env = the captured reference"""
    out = []
    body = fn.body
    for clo in F.closures_of(fn):
        for bb, t in clo.body.calls():
            n = callee_name(t) or ""
            if not n.startswith("<%s>::analyze_" % A):
                continue
            # where is the closure used in the parent
            for pbb, pt in body.calls():
                for x in pt["xs"]:
                    if "t" in x and body.ty(x["t"]).get("d") == clo.q:
                        child = parent_flow.ast_path(pt["xs"][0])
                        # the part of the path walked inside the closure, from its parameter (the mapped element) on
                        inner = FnEnvFlow(F, clo).ast_path(t["xs"][1])
                        if inner and isinstance(inner[0], str) and inner[0].startswith("arg") and len(inner) > 1:
                            child = tuple(child) + tuple(inner[1:])
                        # captured env: upvar of reference type to Env -> find the aggregate building the closure
                        envdesc = ("?",)
                        for b2, si, s in body.assigns():
                            rv = s["rv"]
                            if rv["k"] == "agg" and rv["ak"] == "closure" and rv["d"] == clo.q:
                                for y in rv["xs"]:
                                    if "t" in y and "Env" in body.ty(y["t"])["s"]:
                                        envdesc = parent_flow.describe_env(parent_flow.env_locals(), parent_flow.env_root(y), pbb)
                        out.append({"fn": fn.q, "bb": pbb, "callee": n.rsplit("::", 1)[1] + "(closure)", "child": child,
                                    "env": envdesc, "site": body.span(pt["sp"])})
    return out


def all_rows(F):
    rows = []
    for name in ANALYZE:
        fn = F.fn("<%s>::%s" % (A, name))
        fl = FnEnvFlow(F, fn)
        rows += fl.rows()
        rows += closure_rows(F, fn, fl)
    return rows


def tail_rows(F):
    """(function, child AST position, flag class) for every place a child expression is handed on for analysis together
    with the `can be a tail call` flag: 'no' (constant false), 'yes' (constant true) or 'inherit' (anything computed)"""
    out = []

    def cls(body, x, depth=0):
        if x["k"] == "const":
            if isinstance(x.get("v"), int):
                return "yes" if x.get("v") else "no"
            return "inherit"
        # a flag type with two field-less variants instead of bool: the constant variant is reported by name
        if x["k"] in ("copy", "move") and not x["p"] and depth < 4:
            ds = [st["rv"] for bb, si, st in body.assigns() if st["p"]["l"] == x["l"] and not st["p"]["p"]]
            if len(ds) == 1:
                rv = ds[0]
                if rv["k"] == "agg" and rv.get("ak") == "adt" and not rv["xs"]:
                    return "enum:%s" % rv["v"]
                if rv["k"] == "use":
                    return cls(body, rv["x"], depth + 1)
        return "inherit"
    for name in ANALYZE:
        fn = F.fn("<%s>::%s" % (A, name))
        fl = FnEnvFlow(F, fn)
        body = fn.body
        for bb, t in body.calls():
            n = callee_name(t) or ""
            if n != "<%s>::analyze_expr" % A:
                continue
            flags = [x for x in t["xs"] if (x["k"] == "const" and body.ty(x["t"])["s"] == "bool") or
                     (x["k"] in ("copy", "move") and body.ty(x["t"])["s"] == "bool")]
            if not flags and len(t["xs"]) >= 4:
                flags = [t["xs"][-1]]       # the flag parameter is the last one, whatever its type (bool or a two-variant enum)
            if not flags:
                continue
            out.append({"fn": fn.q, "child": fl.ast_path(t["xs"][1]), "flag": cls(body, flags[-1]), "site": body.span(t["sp"])})
        for bb, si, st in body.assigns():
            rv = st["rv"]
            if rv["k"] == "agg" and rv["ak"] == "adt" and rv["adt"].endswith("analyze_expr::State") and rv["v"] == "Expr" and len(rv["xs"]) >= 2:
                out.append({"fn": fn.q, "child": fl.ast_path(rv["xs"][0]), "flag": cls(body, rv["xs"][1]), "site": body.span(st["sp"])})
        for clo in F.closures_of(fn):
            for bb, t in clo.body.calls():
                n = callee_name(t) or ""
                if n != "<%s>::analyze_expr" % A:
                    continue
                flags = [x for x in t["xs"] if "t" in x and clo.body.ty(x["t"])["s"] == "bool"]
                if not flags and len(t["xs"]) >= 4:
                    flags = [t["xs"][-1]]
                for pbb, pt in body.calls():
                    for x in pt["xs"]:
                        if "t" in x and body.ty(x["t"]).get("d") == clo.q:
                            out.append({"fn": fn.q, "child": fl.ast_path(pt["xs"][0]), "flag": cls(clo.body, flags[-1]) if flags else "?",
                                        "site": body.span(pt["sp"])})
    return out
