"""ENUMTAB helpers: decision tables keyed by one scalar (char / u8) over interval classes."""
from . import kwalk
from .facts import callee_name, pk

SURR_LO, SURR_HI = 0xD800, 0xDFFF


def scalar_domain(ty_s):
    if ty_s == "char":
        return 0, 0x10FFFF
    if ty_s == "u8":
        return 0, 255
    raise ValueError(ty_s)


def representatives(body, ty_s, extra=(), bbs=None):
    lo, hi = scalar_domain(ty_s)
    consts = kwalk.body_int_consts(body, bbs)
    # boundaries of the std ASCII predicates the walker evaluates (is_ascii_digit, ...)
    ex = list(extra) + [0x09, 0x0A, 0x0B, 0x0C, 0x0D, 0x0E, 0x20, 0x21, 0x30, 0x3A, 0x41, 0x47, 0x5B,
                        0x61, 0x67, 0x7B, 0x7F, 0x80]
    if ty_s == "char":
        ex += [SURR_LO, SURR_HI + 1, 0x10000]
    classes = kwalk.interval_classes(consts, lo, hi, ex)
    out = []
    for a, b in classes:
        if ty_s == "char" and SURR_LO <= a and b <= SURR_HI:
            continue
        out.append((a, b))
    return out


def find_iter_key(body, elem_ty=("char", "u8")):
    """Find loop variables fed by `Iterator::next()`: returns list of
    (head_bb, start_bb, start_stmt, key_local, ty_s)."""
    out = []
    next_dsts = {}
    for bb, t in body.calls():
        name = callee_name(t) or ""
        if name.endswith("core::iter::traits::iterator::Iterator>::next") or \
                name.endswith("core::iter::traits::double_ended::DoubleEndedIterator>::next_back"):
            if not t["dst"]["p"]:
                next_dsts[t["dst"]["l"]] = bb
    for bb, si, s in body.assigns():
        rv = s["rv"]
        if rv["k"] != "use" or s["p"]["p"]:
            continue
        x = rv["x"]
        if x["k"] not in ("copy", "move"):
            continue
        if x["l"] in next_dsts and len(x["p"]) == 2 and x["p"][0] != "*" and x["p"][0]["k"] == "d" \
                and x["p"][0]["v"] == "Some":
            ty = body.local_ty(s["p"]["l"])["s"]
            if ty in elem_ty:
                out.append((next_dsts[x["l"]], bb, si + 1, s["p"]["l"], ty))
    return out


def table_over_scalar(F, body, key, ty_s, start_bb, start_stmt, *, stop_bbs=(), on_term=None,
                      on_stmt=None, want_ret=False, pure_calls=None, extra_consts=(), ordered=False):
    """Walk once per interval class of the key; returns list of ((lo, hi), outcomes) and states."""
    rows = []
    states = 0
    stop_bbs = set(stop_bbs)

    def term_cb(w, bb, t, env):
        if bb in stop_bbs:
            return kwalk.STOP
        if on_term:
            return on_term(w, bb, t, env)
        return None

    for a, b in representatives(body, ty_s, extra_consts):
        w = kwalk.Walker(F, body, on_term=term_cb, on_stmt=on_stmt, want_ret=want_ret,
                         pure_calls=pure_calls, ordered_marks=ordered)
        outs = w.run(start_bb, {str(key): a}, start_stmt)
        states += w.states_explored
        rows.append(((a, b), outs))
    return rows, states


def ret_bool(outcome):
    """Value of the returned bool of an outcome with want_ret, or None."""
    kind, marks, ret = outcome
    if kind != "return" or ret is None:
        return None
    for k, v in ret:
        if k == "0" and isinstance(v, int):
            return v
    return None


def parse_bytes_literal(s):
    """Parse rustc's display of a byte-string constant (`b"..."` possibly prefixed by `const `)."""
    s = s.strip()
    if s.startswith("const "):
        s = s[6:]
    if s.startswith("&"):
        s = s[1:]
    if not (s.startswith('b"') and s.endswith('"')):
        return None
    body = s[2:-1]
    out = bytearray()
    i = 0
    while i < len(body):
        c = body[i]
        if c == "\\":
            n = body[i + 1]
            if n == "x":
                out.append(int(body[i + 2:i + 4], 16))
                i += 4
            else:
                out.append({"n": 10, "r": 13, "t": 9, "\\": 92, "0": 0, '"': 34, "'": 39}[n])
                i += 2
        else:
            out.extend(c.encode("utf-8"))
            i += 1
    return bytes(out)


def decode_fmt_template(b):
    """Decode core::fmt::Arguments template bytes (encoding documented in library/core/src/fmt/mod.rs
    of the pinned toolchain). Returns list of ('lit', str) / ('arg', dict) or None if malformed."""
    out = []
    i = 0
    try:
        while True:
            n = b[i]
            i += 1
            if n == 0:
                if i != len(b):
                    return None
                return out
            if n < 0x80:
                out.append(("lit", b[i:i + n].decode("utf-8")))
                i += n
            elif n == 0x80:
                ln = b[i] | (b[i + 1] << 8)
                i += 2
                out.append(("lit", b[i:i + ln].decode("utf-8")))
                i += ln
            elif n >= 0xC0:
                d = {"flags": None, "width": None, "precision": None, "arg": None,
                     "width_indirect": bool(n & 16), "precision_indirect": bool(n & 32)}
                if n & 1:
                    d["flags"] = int.from_bytes(b[i:i + 4], "little")
                    i += 4
                if n & 2:
                    d["width"] = int.from_bytes(b[i:i + 2], "little")
                    i += 2
                if n & 4:
                    d["precision"] = int.from_bytes(b[i:i + 2], "little")
                    i += 2
                if n & 8:
                    d["arg"] = int.from_bytes(b[i:i + 2], "little")
                    i += 2
                out.append(("arg", d))
            else:
                return None
    except IndexError:
        return None


FLAG_ZERO_PAD = 1 << 24
FLAG_ALTERNATE = 1 << 23
FLAG_SIGN_PLUS = 1 << 21
FLAG_SIGN_MINUS = 1 << 22
