"""Shared rule: which fields an object has is decided in exactly two places.

The visibility of a field after inheritance is a property of the whole layer stack (a `:` override
keeps an inherited `::`), so it must be computed by the two resolvers, `ObjectData::has_visible_field`
(one name) and `ObjectData::get_fields_order` (all names).  Everything else must ask one of them:
  V1  the per-layer `visibility` of a field is read only inside the resolvers (and copied by the layer
      cloner); any other reader decides visibility from a single layer
  V2  the membership operators use the query the specification gives them:
        e in o, e in super, std.objectHasAll  -> has_field            (hidden fields count)
        std.objectHas                          -> has_visible_field   (hidden fields do not)
      the `hidden` flag of std.objectHasEx selects between the two, in that direction
Used by C07 (queries agree), C02 (`in` semantics) and C12 (-m lists the visible fields).
"""
from . import cg, kwalk, evalmarks as em
from .facts import callee_name

OBJD = "rsjsonnet_lang::program::data::ObjectData"
FDATA = "rsjsonnet_lang::program::data::ObjectFieldData"
HF = "<%s>::has_field" % OBJD
HVF = "<%s>::has_visible_field" % OBJD
RESOLVERS = ("<%s>::has_visible_field" % OBJD, "<%s>::get_fields_order" % OBJD,
             "rsjsonnet_lang::program::data::extend_object_clone_field")


def _calls_in(F, fn, with_closures=True):
    out = []
    fns = [fn] + (list(F.closures_of(fn)) if with_closures else [])
    for g in fns:
        for bb, t in g.body.calls():
            out.append((g, callee_name(t) or "", t))
    return out


def rule(F, rep, rid):
    R = rep.rule(rid, "field visibility after inheritance is decided only by has_visible_field / get_fields_order: nothing else "
                 "reads a single layer's `visibility`, `in` / `in super` / objectHasAll count hidden fields (has_field) and "
                 "objectHas does not (has_visible_field)")
    rs = cg.who_reads_field(F, FDATA, "visibility", crates=("rsjsonnet_lang",))
    readers = sorted({fn.q for fn, _, _, _ in rs})
    for q in readers:
        ok = any(q == r or q.startswith(r + "::") for r in RESOLVERS)
        rep.ob(R, "visibility-reader|%s" % q, ok, {"fn": q})
        if not ok:
            rep.violation(R, "%s|reads-layer-visibility" % q,
                          "%s reads the `visibility` of a single layer's field: after inheritance the visible set is the merged "
                          "one computed by get_fields_order / has_visible_field (a `:` override of a `::` field stays hidden)" % q,
                          F.fn(q).loc)
    rep.floor(R, len(readers), 3, "readers of ObjectFieldData.visibility")
    # V2: `in`
    E = em.EVAL
    dbo = F.fn("<%s>::do_binary_op" % E)
    names = {n for g, n, t in _calls_in(F, dbo)}
    ok = HF in names and HVF not in names
    rep.ob(R, "in-operator|has_field", ok, {"queries": sorted(n.rsplit("::", 1)[1] for n in names if n in (HF, HVF))})
    if not ok:
        rep.violation(R, "do_binary_op|in|query", "the `in` operator asks %s; the specification defines `e in o` as "
                      "objectHasAll (hidden fields count): has_field" % sorted(n.rsplit("::", 1)[1] for n in names if n in (HF, HVF)), dbo.loc)
    # `e in super`: the InSuper arm (and the closures it builds)
    from . import pushgraph, cfg
    G = pushgraph.PushGraph(F)
    run = G.run
    sw, ent = G.arm_entries()
    tail = {bb for bb, t in run.body.calls() if (callee_name(t) or "") == "<%s>::maybe_gc" % em.PROGRAM}
    if "InSuper" not in ent:
        rep.violation(R, "anchor|State::InSuper", "State::InSuper has no arm")
    else:
        seen = cfg.reachable(run.body.succ_map(), [ent["InSuper"]], blocked_nodes=list(tail | {sw}))
        qs = set()
        for b in seen:
            blk = run.body.blocks[b]
            if blk["cleanup"]:
                continue
            t = blk["t"]
            if t["k"] == "call":
                qs.add(callee_name(t) or "")
                for x in t["xs"]:
                    if "t" in x and run.body.ty(x["t"])["k"] == "closure":
                        c = F.fn_opt(run.body.ty(x["t"])["d"])
                        if c is not None:
                            qs |= {callee_name(t2) or "" for _, t2 in c.body.calls()}
            for st in blk["s"]:
                if st["k"] == "assign" and st["rv"]["k"] == "agg" and st["rv"]["ak"] == "closure":
                    c = F.fn_opt(st["rv"]["d"])
                    if c is not None:
                        qs |= {callee_name(t2) or "" for _, t2 in c.body.calls()}
        ok = HF in qs and HVF not in qs
        rep.ob(R, "in-super|has_field", ok, {"queries": sorted(n.rsplit("::", 1)[1] for n in qs if n in (HF, HVF))})
        if not ok:
            rep.violation(R, "InSuper|query", "`e in super` asks %s, expected has_field"
                          % sorted(n.rsplit("::", 1)[1] for n in qs if n in (HF, HVF)), run.loc)
    # objectHasEx: hidden=true -> has_field, hidden=false -> has_visible_field
    ohe = F.fn("<%s>::do_std_object_has_ex" % E)
    for c in [ohe] + list(F.closures_of(ohe)):
        body = c.body
        calls = {(callee_name(t) or "") for _, t in body.calls()}
        if not ({HF, HVF} & calls):
            continue
        for flag in (0, 1):
            seen_q = set()

            def on_term(w, bb, t, env):
                if t["k"] == "call" and (callee_name(t) or "") in (HF, HVF):
                    return ("q", (callee_name(t) or "").rsplit("::", 1)[1])
                return None
            # the bool that selects: every bool-typed argument / capture is set to `flag`
            env0 = {}
            for l in range(1, len(body.locals)):
                if body.local_ty(l)["s"] == "bool" and l <= body.argc:
                    env0[str(l)] = flag
            # captured by reference: `*(_1.k)` of type bool
            ups = body.local_ty(1)
            w = kwalk.Walker(F, body, on_term=on_term, want_ret=False,
                             call_result=lambda w, bb, t, env, args: None)

            def after(w, bb, idx, st, env, flag=flag):
                rv = st["rv"]
                if rv["k"] == "use" and w.body.ty(st["p"]["t"])["s"] == "bool" and rv["x"].get("k") in ("copy", "move") \
                        and (rv["x"]["l"] == 1 or "*" in rv["x"]["p"]):
                    env[w.norm(env, st["p"])] = flag
            w.after_stmt = after
            outs = w.run(0, dict(env0))
            rep.states += w.states_explored
            for kind, marks, _ in outs:
                for m in marks:
                    if m[0] == "q":
                        seen_q.add(m[1])
            exp = {"has_field"} if flag else {"has_visible_field"}
            ok = seen_q == exp
            rep.ob(R, "objectHasEx|hidden=%d" % flag, ok, {"include_hidden": flag, "query": sorted(seen_q)})
            if not ok:
                rep.violation(R, "do_std_object_has_ex|hidden=%d" % flag, "std.objectHasEx with hidden=%s asks %s, expected %s"
                              % (bool(flag), sorted(seen_q), sorted(exp)), c.loc)
