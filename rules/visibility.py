"""Shared rule: which fields an object has is decided in exactly two places.

The visibility of a field after inheritance is a property of the whole layer stack (a `:` override
keeps an inherited `::`), so it must be computed by the two resolvers, `ObjectData::has_visible_field`
(one name) and `ObjectData::get_fields_order` (all names).  Everything else must ask one of them:
  V1  the per-layer `visibility` of a field is read only inside the resolvers (and copied by the layer
      cloner); any other reader decides visibility from a single layer
  V2  the membership operators use the query the specification gives them:
        e in o, e in super, std.objectHasAll  -> has_field            (hidden fields count)
        std.objectHas                          -> has_visible_field   (hidden fields do not)
      the `hidden` flag of std.objectHasEx selects between the two, in that direction
Used by C07 (queries agree), C02 (`in` semantics) and C12 (-m lists the visible fields).
"""
from . import cg, kwalk, evalmarks as em
from .facts import callee_name

OBJD = "rsjsonnet_lang::program::data::ObjectData"
FDATA = "rsjsonnet_lang::program::data::ObjectFieldData"
HF = "<%s>::has_field" % OBJD
HVF = "<%s>::has_visible_field" % OBJD
RESOLVERS = ("<%s>::has_visible_field" % OBJD, "<%s>::get_fields_order" % OBJD,
             "rsjsonnet_lang::program::data::extend_object_clone_field")


def _calls_in(F, fn, with_closures=True):
    out = []
    fns = [fn] + (list(F.closures_of(fn)) if with_closures else [])
    for g in fns:
        for bb, t in g.body.calls():
            out.append((g, callee_name(t) or "", t))
    return out


def rule(F, rep, rid):
    R = rep.rule(rid, "field visibility after inheritance is decided only by has_visible_field / get_fields_order: nothing else "
                 "reads a single layer's `visibility`, `in` / `in super` / objectHasAll count hidden fields (has_field) and "
                 "objectHas does not (has_visible_field)")
    rs = cg.who_reads_field(F, FDATA, "visibility", crates=("rsjsonnet_lang",))
    readers = sorted({fn.q for fn, _, _, _ in rs})
    for q in readers:
        ok = any(q == r or q.startswith(r + "::") for r in RESOLVERS)
        rep.ob(R, "visibility-reader|%s" % q, ok, {"fn": q})
        if not ok:
            rep.violation(R, "%s|reads-layer-visibility" % q,
                          "%s reads the `visibility` of a single layer's field: after inheritance the visible set is the merged "
                          "one computed by get_fields_order / has_visible_field (a `:` override of a `::` field stays hidden)" % q,
                          F.fn(q).loc)
    rep.floor(R, len(readers), 3, "readers of ObjectFieldData.visibility")
    # V2: `in`
    E = em.EVAL
    dbo = F.fn("<%s>::do_binary_op" % E)
    names = {n for g, n, t in _calls_in(F, dbo)}
    ok = HF in names and HVF not in names
    rep.ob(R, "in-operator|has_field", ok, {"queries": sorted(n.rsplit("::", 1)[1] for n in names if n in (HF, HVF))})
    if not ok:
        rep.violation(R, "do_binary_op|in|query", "the `in` operator asks %s; the specification defines `e in o` as "
                      "objectHasAll (hidden fields count): has_field" % sorted(n.rsplit("::", 1)[1] for n in names if n in (HF, HVF)), dbo.loc)
    # `e in super`: the InSuper arm (and the closures it builds)
    from . import pushgraph, cfg
    G = pushgraph.PushGraph(F)
    run = G.run
    sw, ent = G.arm_entries()
    tail = {bb for bb, t in run.body.calls() if (callee_name(t) or "") == "<%s>::maybe_gc" % em.PROGRAM}
    if "InSuper" not in ent:
        rep.violation(R, "anchor|State::InSuper", "State::InSuper has no arm")
    else:
        seen = cfg.reachable(run.body.succ_map(), [ent["InSuper"]], blocked_nodes=list(tail | {sw}))
        qs = set()
        for b in seen:
            blk = run.body.blocks[b]
            if blk["cleanup"]:
                continue
            t = blk["t"]
            if t["k"] == "call":
                qs.add(callee_name(t) or "")
                for x in t["xs"]:
                    if "t" in x and run.body.ty(x["t"])["k"] == "closure":
                        c = F.fn_opt(run.body.ty(x["t"])["d"])
                        if c is not None:
                            qs |= {callee_name(t2) or "" for _, t2 in c.body.calls()}
            for st in blk["s"]:
                if st["k"] == "assign" and st["rv"]["k"] == "agg" and st["rv"]["ak"] == "closure":
                    c = F.fn_opt(st["rv"]["d"])
                    if c is not None:
                        qs |= {callee_name(t2) or "" for _, t2 in c.body.calls()}
        ok = HF in qs and HVF not in qs
        rep.ob(R, "in-super|has_field", ok, {"queries": sorted(n.rsplit("::", 1)[1] for n in qs if n in (HF, HVF))})
        if not ok:
            rep.violation(R, "InSuper|query", "`e in super` asks %s, expected has_field"
                          % sorted(n.rsplit("::", 1)[1] for n in qs if n in (HF, HVF)), run.loc)
    # objectHasEx: hidden=true -> has_field, hidden=false -> has_visible_field
    ohe = F.fn("<%s>::do_std_object_has_ex" % E)
    for c in [ohe] + list(F.closures_of(ohe)):
        body = c.body
        calls = {(callee_name(t) or "") for _, t in body.calls()}
        if not ({HF, HVF} & calls):
            continue
        for flag in (0, 1):
            seen_q = set()

            def on_term(w, bb, t, env):
                if t["k"] == "call" and (callee_name(t) or "") in (HF, HVF):
                    return ("q", (callee_name(t) or "").rsplit("::", 1)[1])
                return None
            # the bool that selects: every bool-typed argument / capture is set to `flag`
            env0 = {}
            for l in range(1, len(body.locals)):
                if body.local_ty(l)["s"] == "bool" and l <= body.argc:
                    env0[str(l)] = flag
            # captured by reference: `*(_1.k)` of type bool
            ups = body.local_ty(1)
            w = kwalk.Walker(F, body, on_term=on_term, want_ret=False,
                             call_result=lambda w, bb, t, env, args: None)

            def after(w, bb, idx, st, env, flag=flag):
                rv = st["rv"]
                if rv["k"] == "use" and w.body.ty(st["p"]["t"])["s"] == "bool" and rv["x"].get("k") in ("copy", "move") \
                        and (rv["x"]["l"] == 1 or "*" in rv["x"]["p"]):
                    env[w.norm(env, st["p"])] = flag
            w.after_stmt = after
            outs = w.run(0, dict(env0))
            rep.states += w.states_explored
            for kind, marks, _ in outs:
                for m in marks:
                    if m[0] == "q":
                        seen_q.add(m[1])
            exp = {"has_field"} if flag else {"has_visible_field"}
            ok = seen_q == exp
            rep.ob(R, "objectHasEx|hidden=%d" % flag, ok, {"include_hidden": flag, "query": sorted(seen_q)})
            if not ok:
                rep.violation(R, "do_std_object_has_ex|hidden=%d" % flag, "std.objectHasEx with hidden=%s asks %s, expected %s"
                              % (bool(flag), sorted(seen_q), sorted(exp)), c.loc)


VIS = "rsjsonnet_lang::ast::Visibility"
# functions that *compute* the merged visibility (Default inherits, ForceVisible overrides): they must tell the three apart
PARTITION_EXEMPT = RESOLVERS + ("<rsjsonnet_lang::program::analyze::Analyzer>", "rsjsonnet_lang::program::analyze")


def _const_variant(F, fn, body, bb, x):
    """variant name of a `&Visibility` operand that is (a reference to) a constant, else None"""
    if x.get("k") == "const":
        if "promoted" in x:
            return _promoted_variant(fn, x["promoted"])
        return None
    if x.get("k") not in ("move", "copy") or x["p"]:
        return None
    l = x["l"]
    for _ in range(6):
        d = None
        for st in body.blocks[bb]["s"]:
            if st["k"] == "assign" and st["p"]["l"] == l and not st["p"]["p"]:
                d = st["rv"]
        if d is None:
            # single assignment elsewhere in the function
            ds = [st["rv"] for blk in body.blocks for st in blk["s"]
                  if st["k"] == "assign" and st["p"]["l"] == l and not st["p"]["p"]]
            if len(ds) != 1:
                return None
            d = ds[0]
        if d["k"] == "agg" and d.get("ak") == "adt" and d.get("adt") == VIS:
            return d["v"]
        if d["k"] == "use" and d["x"]["k"] == "const":
            if "promoted" in d["x"]:
                return _promoted_variant(fn, d["x"]["promoted"])
            return None
        if d["k"] == "use" and d["x"]["k"] in ("move", "copy") and not [p for p in d["x"]["p"] if p != "*"]:
            l = d["x"]["l"]
            continue
        if d["k"] == "ref" and not [p for p in d["p"]["p"] if p != "*"]:
            l = d["p"]["l"]
            continue
        return None
    return None


def _promoted_variant(fn, idx):
    proms = fn.promoted
    if idx >= len(proms):
        return None
    for blk in proms[idx].blocks:
        for st in blk["s"]:
            if st["k"] == "assign" and st["rv"]["k"] == "agg" and st["rv"].get("adt") == VIS:
                return st["rv"]["v"]
    return None


def rule_partition(F, rep, rid):
    """V3: outside the resolvers a (merged) visibility is only ever asked one question: hidden or not."""
    R = rep.rule(rid, "consumers of a field's visibility (deep forcing, manifesters, objectFields, -m) only separate Hidden from "
                 "the rest: every `==`/`!=` on ast::Visibility outside the resolvers compares with Hidden, and every `match` "
                 "on it sends Default and ForceVisible (`:` and `:::`) to the same arm")
    n_sites = 0
    for fn in F.fn_list:
        q = fn.q
        if fn.body is None or not ("rsjsonnet_lang::program" in q):
            continue
        if any(q == r or q.startswith(r + "::") or q.startswith(r) for r in PARTITION_EXEMPT):
            continue
        body = fn.body
        owner = fn
        # closures keep their promoteds with themselves
        for bb, t in body.calls():
            d = t["f"].get("d") or ""
            if d not in ("core::cmp::PartialEq::eq", "core::cmp::PartialEq::ne"):
                continue
            st = t["f"].get("self")
            sty = body.ty(st) if st is not None else None
            while sty is not None and sty["k"] == "ref":
                sty = body.ty(sty["t"] if "t" in sty else sty["e"])
            if not sty or sty.get("k") != "adt" or sty.get("d", sty.get("s")) not in (VIS,) and VIS not in str(sty.get("s")):
                continue
            n_sites += 1
            vs = [_const_variant(F, owner, body, bb, x) for x in t["xs"]]
            consts = [v for v in vs if v]
            ok = consts == ["Hidden"] or consts == ["Hidden", "Hidden"]
            rep.ob(R, "%s|bb%d|cmp" % (q, bb), ok, {"fn": q, "compares_with": consts})
            if not ok:
                rep.violation(R, "%s|visibility-compare|%s" % (q, ",".join(consts) or "non-constant"),
                              "%s compares a field visibility with %s: outside the resolvers the only meaningful question is "
                              "`!= Hidden` — `:` (Default) and `:::` (ForceVisible) fields are both visible, so a test that "
                              "separates them forces / lists / writes one kind and skips the other"
                              % (q, " / ".join(consts) or "another non-constant visibility"), fn.loc)
        for bb, blk in enumerate(body.blocks):
            if blk["cleanup"]:
                continue
            for st in blk["s"]:
                if st["k"] == "assign" and st["rv"]["k"] == "discr" and st["rv"].get("adt") == VIS:
                    t = blk["t"]
                    if t["k"] != "switch":
                        continue
                    n_sites += 1
                    arms = dict(t["arms"])
                    # variant discriminants: Default=0, Hidden=1, ForceVisible=2 (read from the ADT)
                    disc = {v["n"]: v["discr"] for v in F.adt(VIS)["variants"]}
                    td = arms.get(disc["Default"], t["else"])
                    tf = arms.get(disc["ForceVisible"], t["else"])
                    ok = td == tf
                    rep.ob(R, "%s|bb%d|match" % (q, bb), ok)
                    if not ok:
                        rep.violation(R, "%s|visibility-match|Default-vs-ForceVisible" % q,
                                      "%s matches on a field visibility and treats Default (`:`) and ForceVisible (`:::`) "
                                      "differently; both are visible" % q, fn.loc)
    rep.floor(R, n_sites, 2, "visibility tests outside the resolvers")
