"""Shared rule: a derived object never inherits the "assertions already checked" flag.

Object assertions are late-bound: `lhs + rhs` and `objectRemoveKey` build a new object whose inherited
assertions must be evaluated again against the new `self`.  The evaluator skips the assertions of an
object whose `asserts_checked` cell is true, so (a) every constructor that clones layers of an
existing object must start the cell at `false`, and (b) no constructor may compute the initial value
from another object's cell — that would make the outcome depend on which objects earlier evaluation
(or an earlier request on the same program state) happened to touch.
Used by C07 (late binding), C02 (assertion failures are not skipped) and C11 (history independence).
"""
from . import cg, prov
from .facts import callee_name

OBJ = "rsjsonnet_lang::program::data::ObjectData"
CLONE_LAYER = "rsjsonnet_lang::program::data::extend_object_clone_layer"


def rule(F, rep, rid):
    R = rep.rule(rid, "a new object's `asserts_checked` flag never derives from an existing object's flag, and an object "
                 "built from cloned layers of another object starts with its assertions unchecked (inherited assertions "
                 "are re-evaluated against the new self; whether they run does not depend on what touched the operands before)")
    sites = cg.who_constructs(F, OBJ, crates=("rsjsonnet_lang",))
    n = 0
    for fn, bb, si, st in sites:
        rv = st["rv"]
        P = prov.Prov(F, fn.body)
        P.with_base = True
        for nm, x in zip(rv["fn"], rv["xs"]):
            if nm != "asserts_checked":
                continue
            n += 1
            org = P.origins_op(x)
            inherits = [o for o in org if o[0] == "field" and o[1] == OBJ and o[2] == "asserts_checked"]
            clones = any((callee_name(t) or "") == CLONE_LAYER or
                         any(fn.body.ty(a["t"])["k"] == "fndef" and fn.body.ty(a["t"])["d"] == CLONE_LAYER
                             for a in t["xs"] if "t" in a)
                         for _, t in fn.body.calls())
            # the constant handed to Cell::new on the way to this operand
            consts = set()
            for _, t in fn.body.calls():
                if (callee_name(t) or "") == "<core::cell::Cell>::new" and fn.body.ty(t["xs"][0]["t"])["s"] == "bool":
                    a = t["xs"][0]
                    consts.add(a.get("v") if a["k"] == "const" else "computed")
                    if a["k"] != "const":
                        inherits += [o for o in P.origins_op(a) if o[0] == "field" and o[1] == OBJ and o[2] == "asserts_checked"]
            ok = not inherits and (not clones or consts == {0})
            rep.ob(R, "ctor|%s|%s" % (fn.q, fn.body.span(st["sp"]).rsplit("/", 1)[-1].split(":")[0]), ok,
                   {"constructor": fn.q, "clones_layers_of_another_object": clones, "initial_flag": sorted(map(str, consts)),
                    "derives_from_other_flag": bool(inherits)})
            if not ok:
                rep.violation(R, "%s|asserts_checked|%s" % (fn.q, "inherited" if inherits else "not-false"),
                              "%s builds an object whose asserts_checked flag %s: inherited assertions can be skipped for the "
                              "derived object (and whether they are depends on what was evaluated before)"
                              % (fn.q, "is computed from another object's flag" if inherits else "does not start at false although "
                                 "it clones layers of an existing object"), fn.body.span(st["sp"]))
    rep.floor(R, n, 4, "ObjectData constructors")
