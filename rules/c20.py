"""C20 — parsing, encoding and hashing builtins compute the standard functions.

Agreement with the standard functions over all inputs is value-level and NOT decided.  Decided:
  R1  JSON string lexical classes: raw characters accepted by std.parseJson are exactly those RFC 8259 §7
      allows, the escape letters map to their characters, everything else is an error; JSON whitespace
      and digit classes
  R2  the radix parsers never index the digit string at a non-boundary (UNITS byte-index rule)
  R3  numbers parsed from text are finite-gated before they become values (C06 typestate)
  R4  duplicate object keys are rejected by both document parsers (only the fallible insert is used)
"""
from . import kwalk, chartab, units, c06, cg, evalmarks as em
from .facts import callee_name

EXPLANATION = (
    "Static analysis of MIR: decision table of parse_json::Lexer::lex_string over all interval classes of "
    "(raw character) and (escape letter); tables of skip_spaces / eat_digit_*; UNITS byte-index rule; the "
    "C06 finiteness typestate; who-calls of insert_field / try_insert_field in the document parsers."
)

PJ = "rsjsonnet_lang::program::eval::parse_json::"
LEX = "<%sLexer>" % PJ
OPTION = "core::option::Option"
PEK = PJ + "ParseErrorKind"
ESC = {0x22: 0x22, 0x5C: 0x5C, 0x2F: 0x2F, ord("b"): 8, ord("f"): 0xC, ord("n"): 0xA, ord("r"): 0xD, ord("t"): 9}


def lex_string_outcomes(F, rep, fn, c1, c2):
    body = fn.body

    def hook(w, bb, t, env, args):
        n = callee_name(t) or ""
        dst = w.norm(env, t["dst"])
        if n == "%s::eat_char" % LEX:
            i = env.get("#ec", 0)
            env["#ec"] = i + 1
            return 1 if i == 0 else 0
        if n == "%s::eat_any_char" % LEX:
            i = env.get("#ac", 0)
            env["#ac"] = i + 1
            v = c1 if i == 0 else (c2 if i == 1 else None)
            if v is None:
                return None
            env["%s@Some.0" % dst] = v
            return ("var", OPTION, "Some")
        return None

    def on_term(w, bb, t, env):
        if t["k"] != "call":
            return None
        n = callee_name(t) or ""
        if n == "%s::eat_char" % LEX and env.get("#ec", 0) >= 2:
            return kwalk.STOP
        if n == "<alloc::string::String>::push":
            v = w.val(env, t["xs"][1])
            return ("push", v if isinstance(v, int) else "?")
        return None

    def on_stmt(w, bb, idx, s, env):
        if s["k"] == "assign":
            rv = s["rv"]
            if rv["k"] == "agg" and rv["ak"] == "adt" and rv["adt"] == PEK:
                return ("err", rv["v"])
        return None
    w = kwalk.Walker(F, body, call_result=hook, on_term=on_term, on_stmt=on_stmt, ordered_marks=True, want_ret=True)
    outs = w.run(0, {})
    rep.states += w.states_explored
    res = set()
    for kind, marks, ret in outs:
        if kind.startswith("diverge"):
            continue
        pushes = tuple(m[1] for m in marks if m[0] == "push")
        all_errs = [m[1] for m in marks if m[0] == "err"]
        d = dict(ret or ())
        top = d.get("0")
        is_err = kind == "return" and isinstance(top, tuple) and top[0] == "var" and top[2] == "Err"
        # error values built eagerly as `ok_or(..)` arguments are not outcomes: the error that is
        # returned is the last one constructed on an Err-returning path
        errs = (all_errs[-1],) if (is_err and all_errs) else (("<err>",) if is_err else ())
        res.add((pushes, errs))
    return res


def _loop_heads(body):
    """targets of the back edges of a body (depth-first search over the non-cleanup blocks)"""
    succ = body.succ_map()
    heads, state = set(), {}
    stack = [(0, iter(succ[0]))]
    state[0] = 1
    while stack:
        b, it = stack[-1]
        for x in it:
            if body.blocks[x]["cleanup"]:
                continue
            if state.get(x) == 1:
                heads.add(x)
            elif x not in state:
                state[x] = 1
                stack.append((x, iter(succ[x])))
                break
        else:
            state[b] = 2
            stack.pop()
    return heads


_INPUT_TYS = ("&str", "&[u8]", "&mut str", "&mut [u8]")


def _skipped_classes(F, rep, sk):
    """The characters skip_spaces skips, decided on its behaviour rather than on the std function it happens to use: the
    function is walked once per interval class of the next character of the unconsumed input (and once for the end of the
    input); every way of looking at the head of the input that the walk meets (`strip_prefix`, `starts_with`, `chars().next()`,
    `bytes().next()`, `as_bytes().first()`, `is_empty`) answers for that character; a class is skipped when the walk comes
    round to a loop head of skip_spaces again, and not skipped when it returns.  Returns (skipped code points, oddities)."""
    body = sk.body
    heads = _loop_heads(body)
    unknown = set()

    def lead(a):
        return a if a < 0x80 else chr(a).encode("utf-8")[0]

    def pat_matches(w, env, t, pat, a):
        if a is None:
            return False if not (isinstance(pat, tuple) and pat[0] == "str" and pat[1] == "") else True
        if isinstance(pat, tuple) and pat[0] == "ref":
            pat = env.get(pat[1])
        if isinstance(pat, int):
            return pat == a
        if isinstance(pat, tuple) and pat[0] == "str":
            if pat[1] == "":
                return True
            if ord(pat[1][0]) != a:
                return False
            if len(pat[1]) == 1:
                return True
            raise kwalk.WalkLimit("skip_spaces tests a multi-character prefix")
        if isinstance(pat, tuple) and pat[0] == "fn":
            pf = w.pure.get(pat[1])
            if pf is not None:
                r = pf(w, env, [a])
                if isinstance(r, int):
                    return bool(r)
            c = F.fn_opt(pat[1])
            if c is not None and c.body is not None:
                res = set()
                cw = kwalk.Walker(F, c.body, want_ret=True)
                arg = str(c.body.argc)
                for kind, marks, ret in cw.run(0, {arg: a}):
                    res.add(dict(ret or ()).get("0"))
                if len(res) == 1 and isinstance(next(iter(res)), int):
                    return bool(next(iter(res)))
        raise kwalk.WalkLimit("skip_spaces tests the input against a pattern that is not a constant character or predicate")

    def outcomes(a):
        def hook(w, bb, t, env, args):
            n = callee_name(t) or ""
            dst = w.norm(env, t["dst"])
            if n in ("<str>::strip_prefix", "<str>::starts_with", "<[T]>::starts_with", "<[T]>::strip_prefix") and len(args) > 1:
                if n.startswith("<[T]>"):
                    raise kwalk.WalkLimit("skip_spaces tests a byte-slice prefix")
                m = pat_matches(w, env, t, args[1], a)
                if n.endswith("starts_with"):
                    return int(m)
                return ("var", OPTION, "Some" if m else "None")
            if n in ("<core::str::iter::Chars as core::iter::traits::iterator::Iterator>::next",
                     "<core::str::iter::Bytes as core::iter::traits::iterator::Iterator>::next"):
                if env.get("#taken"):
                    return None
                env["#taken"] = 1
                if a is None:
                    return ("var", OPTION, "None")
                env["%s@Some.0" % dst] = a if "Chars" in n else lead(a)
                return ("var", OPTION, "Some")
            if n in ("<[T]>::first", "<[u8]>::first"):
                if a is None:
                    return ("var", OPTION, "None")
                env["#HEAD"] = lead(a)
                env["%s@Some.0" % dst] = ("ref", "#HEAD")
                return ("var", OPTION, "Some")
            if n in ("<str>::is_empty", "<[T]>::is_empty"):
                return int(a is None)
            x0 = t["xs"][0] if t["xs"] else None
            if x0 is not None and "t" in x0 and w.body.ty(x0["t"])["s"] in _INPUT_TYS and "t" in t["dst"]:
                dt = w.body.ty(t["dst"]["t"])
                if dt["s"] in kwalk._INT_BITS or (dt["k"] == "adt" and dt["d"] == OPTION):
                    unknown.add(n)
            return None

        def on_term(w, bb, t, env):
            if not isinstance(bb, kwalk.FrameBB) and bb in heads:
                k = "#head%d" % bb
                if env.get(k):
                    return (kwalk.STOP, ("again",))
                env[k] = 1
            return None
        w = kwalk.Walker(F, body, call_result=hook, on_term=on_term)
        outs = w.run(0, {})
        rep.states += w.states_explored
        res = set()
        for kind, marks, ret in outs:
            if ("again",) in marks:
                res.add("again")
            elif kind == "return":
                res.add("return")
        return res
    skipped, odd = set(), set()
    rows = [(a, b, outcomes(a)) for a, b in chartab.representatives(body, "char", extra=[0x09, 0x0A, 0x0D, 0x20, 0x21, 0x85, 0xA0, 0xA1])]
    rows.append((None, None, outcomes(None)))
    for a, b, res in rows:
        if res == {"again"} and a is not None:
            if a == b:
                skipped.add(a)
            else:
                odd.add("U+%04X..U+%04X" % (a, b))
        elif res != {"return"}:
            if unknown:
                raise kwalk.WalkLimit("skip_spaces looks at the input through %s, which is not modelled" % sorted(unknown))
            odd.add("%s:%s" % ("end-of-input" if a is None else "U+%04X..U+%04X" % (a, b), "/".join(sorted(res)) or "no-exit"))
    return skipped, odd


def rule_r1(F, rep):
    R = rep.rule("C20.R1", "std.parseJson accepts inside strings exactly the raw characters RFC 8259 §7 allows "
                 "(everything except U+0000..U+001F, the quote and the backslash), maps the escape letters "
                 "\" \\ / b f n r t to their characters and rejects every other escape; JSON whitespace is exactly "
                 "space, tab, LF, CR; digit classes are 0-9 and 1-9")
    fn = F.fn("%s::lex_string" % LEX)
    rep.fn(fn)
    classes = chartab.representatives(fn.body, "char", extra=[0x20, 0x22, 0x23, 0x2F, 0x30, 0x5C, 0x5D])
    for a, b in classes:
        if a <= 0x22 <= b or a <= 0x5C <= b:
            if a != b:
                raise kwalk.WalkLimit("class split failed for quote/backslash")
            if a == 0x22:
                continue
        if a == 0x5C:
            continue
        res = lex_string_outcomes(F, rep, fn, a, None)
        if a <= 0x1F:
            exp = {((), ("InvalidChrInString",))}
        else:
            exp = {((a,), ())}
        ok = res == exp
        rep.ob(R, "raw|U+%04X..U+%04X" % (a, b), ok, {"class": "U+%04X..U+%04X" % (a, b), "outcome": sorted(map(str, res))} if a in (0, 0x1F, 0x20, 0x7F) else None)
        if not ok:
            rep.violation(R, "%s|raw|U+%04X..U+%04X" % (fn.q, a, b), "raw character class U+%04X..U+%04X inside a JSON string: %s, "
                          "RFC 8259 says %s" % (a, b, sorted(map(str, res)), sorted(map(str, exp))), fn.loc)
    for a, b in classes:
        res = lex_string_outcomes(F, rep, fn, 0x5C, a)
        if a == ord("u") and b == a:
            ok = not any(p and p[0] not in ("?",) and isinstance(p[0], int) and p[0] in (8, 9, 10, 12, 13) for p, e in res)
            exp = "unicode escape (not decided)"
        elif a in ESC and a == b:
            exp = {((ESC[a],), ())}
            ok = res == exp
        else:
            if any(x in ESC or x == ord("u") for x in (a, b)) and a != b:
                raise kwalk.WalkLimit("escape class split failed")
            exp = {((), ("InvalidStringEscape",))}
            ok = res == exp
        rep.ob(R, "escape|U+%04X..U+%04X" % (a, b), ok, {"escape": "\\%s" % (chr(a) if 0x20 < a < 0x7F else hex(a)), "outcome": sorted(map(str, res))} if a in (ord("n"), ord("v"), 0x2F) else None)
        if not ok:
            rep.violation(R, "%s|escape|U+%04X..U+%04X" % (fn.q, a, b), "JSON escape \\%s: %s, RFC 8259 says %s"
                          % (chr(a) if 0x20 < a < 0x7F else hex(a), sorted(map(str, res)), exp), fn.loc)
    # whitespace set of skip_spaces
    sk = F.fn("%s::skip_spaces" % LEX)
    rep.fn(sk)
    skipped, odd = _skipped_classes(F, rep, sk)
    ok = skipped == {0x20, 0x09, 0x0A, 0x0D} and not odd
    pats = set(skipped) | set(odd)
    rep.ob(R, "whitespace", ok, {"skipped": sorted(map(str, pats))})
    if not ok:
        rep.violation(R, "%s|whitespace" % sk.q, "JSON whitespace skipped: %s, RFC 8259 says space, tab, LF, CR" % sorted(map(str, pats)), sk.loc)
    # digit classes
    for name, lo in (("eat_digit_0_9", 0x30), ("eat_digit_1_9", 0x31)):
        g = F.fn("%s::%s" % (LEX, name))
        rep.fn(g)
        for a, b in chartab.representatives(g.body, "char", extra=[0x30, 0x31, 0x3A]):
            def hook(w, bb, t, env, args, a=a):
                n = callee_name(t) or ""
                if n == "<core::str::iter::Chars as core::iter::traits::iterator::Iterator>::next":
                    env["%s@Some.0" % w.norm(env, t["dst"])] = a
                    return ("var", OPTION, "Some")
                return None
            w = kwalk.Walker(F, g.body, call_result=hook, want_ret=True)
            outs = w.run(0, {})
            rep.states += w.states_explored
            vals = {chartab.ret_bool(o) for o in outs if o[0] == "return"}
            exp = {1} if lo <= a and b <= 0x39 else {0}
            ok = vals == exp
            rep.ob(R, "%s|U+%04X..U+%04X" % (name, a, b), ok)
            if not ok:
                rep.violation(R, "%s|class|U+%04X..U+%04X" % (g.q, a, b), "%s accepts U+%04X..U+%04X: %s" % (name, a, b, vals), g.loc)
    rep.trust("RFC 8259 §2, §6, §7 transcribed in rules/c20.py")


def rule_r4(F, rep):
    R = rep.rule("C20.R4", "std.parseJson and std.parseYaml build objects only through the fallible insert whose "
                 "failure is reported as a repeated-field error (the asserting insert would panic on duplicates)")
    n = 0
    for mod in ("parse_json", "parse_yaml"):
        pre = "rsjsonnet_lang::program::eval::%s::" % mod
        fns = [f for f in F.fn_list if f.q.startswith(pre) or f.q.startswith("<" + pre)]
        rep.fn(*fns)
        bad = []
        good = 0
        for f in fns:
            for bb, t in f.body.calls():
                nme = callee_name(t) or ""
                if nme == "<rsjsonnet_lang::program::data::SimpleObjectBuilder>::insert_field":
                    bad.append((f, bb, t))
                if nme == "<rsjsonnet_lang::program::data::SimpleObjectBuilder>::try_insert_field":
                    good += 1
                    # the false edge must reach a RepeatedFieldName error
                    ok = _false_edge_is_error(F, f, bb, t)
                    n += 1
                    rep.ob(R, "%s|try_insert@bb%d" % (f.q, bb), ok, {"fn": f.q, "site": f.body.span(t["sp"])})
                    if not ok:
                        rep.violation(R, "%s|duplicate-ignored" % f.q, "the result of try_insert_field is not turned into a "
                                      "repeated-field error", f.body.span(t["sp"]))
        rep.ob(R, "%s|no-asserting-insert" % mod, not bad)
        for f, bb, t in bad:
            rep.violation(R, "%s|insert_field" % f.q, "%s uses the asserting insert_field: a duplicate key panics" % mod, f.body.span(t["sp"]))
        if good == 0:
            rep.violation(R, "%s|no-insert" % mod, "%s no longer builds objects through try_insert_field (anchor)" % mod)
    rep.floor(R, n, 2, "fallible insert sites")


def _false_edge_is_error(F, fn, bb, t):
    def hook(w, b2, t2, env, args):
        if b2 == bb:
            return 0
        return None

    def on_stmt(w, b2, idx, s, env):
        if s["k"] == "assign":
            rv = s["rv"]
            if rv["k"] == "agg" and rv["ak"] == "adt" and rv["v"] == "RepeatedFieldName":
                return ("dup-error",)
        return None
    w = kwalk.Walker(F, fn.body, call_result=hook, on_stmt=on_stmt, want_ret=True, max_states=200000)
    # start at the call block itself
    outs = w.run(bb, {})
    if not outs:
        return False
    for kind, marks, ret in outs:
        if kind.startswith("diverge"):
            continue
        if ("dup-error",) not in marks:
            return False
    return True


def rule_r5(F, rep):
    R = rep.rule("C20.R5", "no digit of the text is dropped when a number is read: in the radix parsers (parseHex, parseOctal, "
                 "YAML 0x/0o scalars) the value of every digit obtained from `char::to_digit` flows into the result; a digit that is "
                 "only tested for validity cannot influence rounding, so two digit strings with different exact values are "
                 "forced to the same double even when they lie on different sides of a rounding boundary")
    PRED = ("<core::option::Option>::is_none", "<core::option::Option>::is_some")
    PASS = ("<core::option::Option>::ok_or", "<core::option::Option>::ok_or_else", "core::ops::try_trait::Try>::branch",
            "<core::option::Option>::unwrap", "<core::option::Option>::expect", "<core::option::Option>::unwrap_or",
            "<core::result::Result>::unwrap", "<core::option::Option>::map")
    n = 0
    for fn in F.fn_list:
        if fn.crate.name != "rsjsonnet_lang" or "parse_num_radix" not in fn.q or "{closure" in fn.q:
            continue
        body = fn.body
        rep.fn(fn)
        for bb, t in body.calls():
            nme = callee_name(t) or ""
            if not nme.endswith("<char>::to_digit") and nme != "<char>::to_digit" and not nme.endswith("char::methods::<impl char>::to_digit"):
                continue
            n += 1
            slice_ = {t["dst"]["l"]}
            payload_read = False
            changed = True
            while changed:
                changed = False
                for b2, si, st in body.assigns():
                    rv = st["rv"]
                    ops = []
                    if rv["k"] in ("use", "cast"):
                        ops = [rv["x"]]
                    elif rv["k"] in ("ref", "rawptr", "discr"):
                        ops = [dict(rv["p"], k="copy")]
                    elif rv["k"] == "binop":
                        ops = [rv["a"], rv["b"]]
                    elif rv["k"] == "agg":
                        ops = rv["xs"]
                    for x in ops:
                        if x.get("k") in ("copy", "move") and x["l"] in slice_:
                            reads_payload = any(pr != "*" and pr["k"] == "d" and pr["v"] in ("Some", "Continue", "Ok") for pr in x["p"])
                            if rv["k"] == "discr":
                                continue
                            if reads_payload:
                                payload_read = True
                            if not st["p"]["p"] and st["p"]["l"] not in slice_:
                                slice_.add(st["p"]["l"])
                                changed = True
                for b2, t2 in body.calls():
                    n2 = callee_name(t2) or ""
                    if any(x.get("k") in ("copy", "move") and x["l"] in slice_ for x in t2["xs"]):
                        if n2 in PRED:
                            continue
                        if any(n2.endswith(p_) or n2 == p_ for p_ in PASS):
                            if t2["dst"]["l"] not in slice_:
                                slice_.add(t2["dst"]["l"])
                                changed = True
                        else:
                            payload_read = True
            ok = payload_read
            rep.ob(R, "%s|to_digit@%s" % (fn.q, body.span(t["sp"]).rsplit(":", 2)[-2]), ok, {"fn": fn.q, "site": body.span(t["sp"]),
                                                                                       "digit_value_used": payload_read})
            if not ok:
                rep.violation(R, "%s|digit-value-dropped" % fn.q,
                              "%s obtains a digit with char::to_digit and only tests that it is valid; its value never reaches the "
                              "result, so digits beyond the accumulator's width cannot break a rounding tie "
                              "(e.g. parseHex of a 33-digit string whose first 32 digits are exactly half-way between two doubles)" % fn.q,
                              body.span(t["sp"]))
    rep.floor(R, n, 2, "to_digit sites in the radix parsers")


def rule_r6(F, rep):
    R = rep.rule("C20.R6", "std.parseInt validates its argument with exactly the ASCII digits: a character reaches the "
                 "float conversion (whose result is unwrapped) only if it is one of 0-9; every other character — including "
                 "the Unicode digits and numerics that `f64::from_str` rejects — is reported as 'invalid base 10'")
    fn = F.fn("<%s>::do_std_parse_int" % em.EVAL)
    rep.fn(fn)
    bodies = [fn] + list(F.closures_of(fn))
    classes = chartab.representatives(fn.body, "char", extra=[0x2D, 0x2E, 0x30, 0x3A, 0x660, 0x66A, 0xB2, 0xB3, 0xBD, 0xFF10, 0xFF1A])
    PARSE = ("core::str::traits::FromStr>::from_str", "<str>::parse", "core::str::<impl str>::parse")
    n = 0
    bad_classes = []
    for a, b in classes:
        def hook(w, bb, t, env, args, a=a):
            nme = callee_name(t) or ""
            dst = w.norm(env, t["dst"])
            if nme.endswith("Chars as core::iter::traits::iterator::Iterator>::next"):
                i = env.get("#cn", 0)
                env["#cn"] = i + 1
                if i == 0:
                    env["%s@Some.0" % dst] = a
                    return ("var", OPTION, "Some")
                return ("var", OPTION, "None")
            if nme.endswith("Iterator>::find") or nme.endswith("Iterator::find") or nme.endswith("Iterator>::all") or \
                    nme.endswith("Iterator>::any") or nme.endswith("Iterator::all") or nme.endswith("Iterator::any"):
                # the predicate closure is applied to the one character of the string
                for x in t["xs"][1:]:
                    if "t" in x and w.body.ty(x["t"])["k"] == "closure":
                        c = F.fn_opt(w.body.ty(x["t"])["d"])
                        if c is None:
                            return None
                        res = set()
                        cw = kwalk.Walker(F, c.body, want_ret=True)
                        # closure(&mut self, &char) or (char)
                        env2 = {}
                        pt = c.body.local_ty(2)
                        if pt["k"] == "ref":
                            env2["2"] = ("ref", "CH")
                            env2["CH"] = a
                        else:
                            env2["2"] = a
                        for kind, marks, ret in cw.run(0, env2):
                            d = dict(ret or ())
                            res.add(d.get("0"))
                        if len(res) == 1 and isinstance(next(iter(res)), int):
                            v = next(iter(res))
                            if nme.rsplit("::", 1)[1] == "find":
                                if v:
                                    env["%s@Some.0" % dst] = a
                                    return ("var", OPTION, "Some")
                                return ("var", OPTION, "None")
                            return v
                        return None
            if nme in ("<str>::is_empty", "<alloc::string::String>::is_empty"):
                return 0
            return None

        def on_term(w, bb, t, env):
            if t["k"] == "call":
                nme = callee_name(t) or ""
                if any(nme.endswith(p_) or nme == p_ for p_ in PARSE):
                    return (kwalk.STOP, ("converted",))
            return None

        def on_stmt(w, bb, idx, st, env):
            if st["k"] == "assign" and st["rv"]["k"] == "agg" and st["rv"]["ak"] == "adt" and st["rv"]["adt"] == em.ERRKIND:
                return ("err", st["rv"]["v"])
            return None
        w = kwalk.Walker(F, fn.body, call_result=hook, on_term=on_term, on_stmt=on_stmt, want_ret=True)
        outs = w.run(0, {})
        rep.states += w.states_explored
        res = set()
        for kind, marks, ret in outs:
            if kind.startswith("diverge"):
                continue
            if ("converted",) in marks:
                res.add("converted")
            elif any(m[0] == "err" for m in marks):
                res.add("rejected")
        isdigit = 0x30 <= a and b <= 0x39
        exp = {"converted"} if isdigit else {"rejected"}
        # the argument-type error of expect_std_func_arg_string is common to all classes
        res2 = res if isdigit else (res - set())
        ok = (res2 == exp) if isdigit else ("converted" not in res and "rejected" in res)
        n += 1
        rep.ob(R, "parseInt|U+%04X..U+%04X" % (a, b), ok, {"class": "U+%04X..U+%04X" % (a, b), "outcome": sorted(res)}
               if a in (0x30, 0x2D, 0x660, 0xFF10) else None)
        if not ok:
            bad_classes.append(("U+%04X..U+%04X" % (a, b), sorted(res)))
    if bad_classes:
        rep.violation(R, "do_std_parse_int|alphabet",
                      "std.parseInt lets characters other than 0-9 reach the float conversion, or rejects digits: %s%s; only 0-9 "
                      "may reach it (anything else makes `parse::<f64>().unwrap()` panic or changes the accepted language)"
                      % (bad_classes[:6], " ... (%d classes)" % len(bad_classes) if len(bad_classes) > 6 else ""), fn.loc)
    rep.floor(R, n, 8, "character classes")


def rule_r7(F, rep):
    R = rep.rule("C20.R7", "the base64 decoder validates the length of what it decodes: it works on the sequence of characters, in "
                 "groups of four, and the `multiple of 4` test is made on that sequence (its remainder / its length) — a test on "
                 "the UTF-8 byte length disagrees with the grouping for non-ASCII input, so trailing garbage is dropped unseen")
    fns = [f for f in F.fn_list if f.crate.name == "rsjsonnet_lang" and f.q.endswith("::decode_base64")]
    if not fns:
        rep.violation(R, "anchor|decode_base64", "decode_base64 not found (anchor)")
        return
    fn = fns[0]
    rep.fn(fn)
    body = fn.body
    names = [callee_name(t) or "" for _, t in body.calls()]
    chunked = any("chunks_exact" in n or n.endswith("<[T]>::chunks") for n in names)
    byte_len = [body.span(t["sp"]) for _, t in body.calls() if (callee_name(t) or "") in ("<str>::len", "<alloc::string::String>::len")]
    rem_checked = any("remainder" in n for n in names) or any(n == "<[T]>::len" for n in names)
    ok = chunked and not byte_len and rem_checked
    rep.ob(R, "decode_base64|length-test", ok, {"groups_of_four_over_chars": chunked, "str_len_calls": byte_len, "remainder_or_slice_len_checked": rem_checked})
    if not ok:
        rep.violation(R, "decode_base64|length-test", "decode_base64 %s: the length test and the grouping must look at the same "
                      "sequence of characters" % ("tests the byte length of the string (%s)" % byte_len[0] if byte_len else
                                                  "no longer checks the remainder of the character groups"), fn.loc)


# RFC 8259 §6: number = [ minus ] int [ frac ] [ exp ]
RFC8259_NUMBER = r"-?(0|[1-9][0-9]*)(\.[0-9]+)?([eE][-+]?[0-9]+)?"
# what <f64 as FromStr> accepts over the alphabet of digits, sign, dot and e/E (core::num::dec2flt grammar: Number ::= (Digit+ |
# Digit+ '.' Digit* | Digit* '.' Digit+) Exp?, Exp ::= 'e' Sign? Digit+); `inf`/`nan` spellings use letters no scanner here passes on
RUST_F64 = r"[-+]?([0-9]+(\.[0-9]*)?|\.[0-9]+)([eE][-+]?[0-9]+)?"
JSON_FOLLOW = [0x20, 0x09, 0x0A, 0x0D, ord(","), ord("]"), ord("}")]


def rule_r8(F, rep):
    from . import scanfsm, dfa
    R = rep.rule("C20.R8", "the number scanners, as automata over all strings: the language of std.parseJson's lex_number (built from "
                 "its MIR: state enum x next-character class -> next state / stop / error) equals the RFC 8259 §6 number grammar; a "
                 "complete number stops without error before whitespace, `,`, `]`, `}` and the end of input, an incomplete one is "
                 "never silently cut; std.parseYaml's plain-scalar number scanner accepts every RFC 8259 number; and neither scanner "
                 "hands `<f64 as FromStr>` a string outside its grammar (its `unwrap()` would panic)")

    def cls_json(o):
        return "reject" if ("ParseErrorKind", "InvalidNumber") in o[2] else "accept"

    def cls_yaml(o):
        r = o[3]
        return "reject" if (r and r[2] == "None") else "accept"
    n = 0
    fj = [f for f in F.fn_list if f.crate.name == "rsjsonnet_lang" and f.q.endswith("parse_json::Lexer>::lex_number")]
    fy = [f for f in F.fn_list if f.crate.name == "rsjsonnet_lang" and f.q.endswith("parse_yaml::try_parse_number")]
    if not fj or not fy:
        rep.violation(R, "anchor|number-scanners", "parse_json::Lexer::lex_number / parse_yaml::try_parse_number not found (anchor)")
        return
    extra = [ord(c) for c in "+-.eE019,]}"] + [ord("9") + 1, ord("1") + 1]
    sj = scanfsm.Scanner(F, fj[0], classify_exit=cls_json, extra_consts=extra)
    sy = scanfsm.Scanner(F, fy[0], classify_exit=cls_yaml, extra_consts=extra)
    rep.fn(fj[0], fy[0])
    rep.states += sj.states_explored + sy.states_explored
    for sc, nm in ((sj, "parse_json::lex_number"), (sy, "parse_yaml::try_parse_number")):
        al = sc.al
        L = sc.token_dfa()
        eps = dfa.DFA.literal(al, "")
        L1 = L & eps.complement()
        rust = dfa.regex(al, RUST_F64)
        json_l = dfa.regex(al, RFC8259_NUMBER)
        n += len(sc.table)
        w = scanfsm.witness(L1 & rust.complement())
        rep.ob(R, "%s|subset-of-FromStr" % nm, w is None, {"scanner": nm, "states": sc.states, "symbols": al.n + 1, "accepted_but_not_a_float_literal": w})
        if w is not None:
            rep.violation(R, "%s|not-a-float-literal" % nm, "%s accepts %r, which `<f64 as FromStr>::from_str` rejects: the "
                          "`parse().unwrap()` behind the scanner panics on it" % (nm, w), sc.fn.loc)
        w = scanfsm.witness(json_l & L1.complement())
        rep.ob(R, "%s|accepts-json-numbers" % nm, w is None, {"scanner": nm, "rfc8259_number_not_accepted": w})
        if w is not None:
            rep.violation(R, "%s|rejects-json-number" % nm, "%s does not accept the RFC 8259 number %r" % (nm, w), sc.fn.loc)
    al = sj.al
    L1 = sj.token_dfa() & dfa.DFA.literal(al, "").complement()
    w = scanfsm.witness(L1 & dfa.regex(al, RFC8259_NUMBER).complement())
    rep.ob(R, "parse_json::lex_number|only-json-numbers", w is None, {"accepted_but_not_rfc8259": w})
    if w is not None:
        rep.violation(R, "parse_json::lex_number|accepts-non-json", "std.parseJson's number scanner accepts %r, which is not an "
                      "RFC 8259 number" % w, sj.fn.loc)
    follow = {al.sym_of_cp(c) for c in JSON_FOLLOW} | {scanfsm.EOF}
    for s in sj.states:
        if s == sj.init:
            continue
        accepting = sj.outcome(s, scanfsm.EOF)[0] == "accept"
        for si in list(range(al.n)) + [scanfsm.EOF]:
            o = sj.outcome(s, si)
            if o[0] == "next":
                continue
            n += 1
            if accepting and si in follow and o[0] != "accept":
                rep.ob(R, "parse_json::lex_number|stop|%s|%s" % (s, sj._sym(si)), False)
                rep.violation(R, "parse_json::lex_number|follow|%s" % sj._sym(si), "a complete number followed by %s is reported as an "
                              "error (state %s); RFC 8259 lets a value be followed by whitespace, `,`, `]`, `}` or the end"
                              % (sj._sym(si), s), sj.fn.loc)
            elif not accepting and o[0] == "accept":
                rep.ob(R, "parse_json::lex_number|stop|%s|%s" % (s, sj._sym(si)), False)
                rep.violation(R, "parse_json::lex_number|cut|%s" % s, "an incomplete number (state %s) followed by %s is cut off and "
                              "accepted instead of being rejected" % (s, sj._sym(si)), sj.fn.loc)
            else:
                rep.ob(R, "parse_json::lex_number|stop|%s|%s" % (s, sj._sym(si)), True)
    rep.floor(R, n, 600, "(state, symbol) cells of the two scanners")


def run(F, rep, tier):
    rep.attempt(rule_r1, F, rep)
    rep.attempt(units.rule_byte_index, F, rep, "C20.R2")
    rep.attempt(c06.rule_r1, F, rep)
    rep.attempt(rule_r4, F, rep)
    rep.attempt(rule_r5, F, rep)
    rep.attempt(rule_r6, F, rep)
    rep.attempt(rule_r7, F, rep)
    rep.attempt(rule_r8, F, rep)
    # std.escapeStringJson / escapeStringPython are the manifesters' escaper: its per-character table and bulk-copy guard
    from . import c05
    rep.attempt(c05.rule_r1, F, rep)
    rep.attempt(c05.rule_r1b, F, rep)
    from . import stdlike
    rep.attempt(stdlike.rule_lookalikes, F, rep, "C20.R9")
    rep.assume("base64 / UTF-8 / digest / escape-function values, decoder-inverts-encoder, YAML/JSON agreement and "
               "totality inside saphyr-parser are value-level or external and not decided")
    return EXPLANATION
