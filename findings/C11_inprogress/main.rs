// C11 finding: a failed request leaves thunks "in progress"; a later request on the same program
// state that touches the same thunk reports "infinite recursion" although a fresh state succeeds.
fn run(limits: &[usize]) -> Vec<bool> {
    let arena = rsjsonnet_lang::arena::Arena::new();
    let mut session = rsjsonnet_front::Session::new(&arena);
    let src = b"local deep(n) = if n == 0 then 0 else 1 + deep(n - 1); { lib: deep(50) }";
    let thunk = session.load_virt_file("<probe>", src.to_vec()).unwrap();
    let mut out = Vec::new();
    for &l in limits {
        session.program_mut().set_max_stack(l);
        out.push(session.eval_value(&thunk).is_some());
    }
    out
}
fn main() {
    let fresh = run(&[500]);
    let history = run(&[20, 500]);
    println!("fresh state, limit 500: ok={}", fresh[0]);
    println!("same state after a failed request (limit 20), then limit 500: ok={}", history[1]);
    std::process::exit(if fresh[0] == history[1] { 0 } else { 1 });
}
