// C11 probe: check_object_asserts marks an object as checked *before* its assertions run, so after a request that
// failed on an object's assertion a later request on the same state skips the assertion.
fn run(requests: usize) -> Vec<Option<String>> {
    let arena = rsjsonnet_lang::arena::Arena::new();
    let mut session = rsjsonnet_front::Session::new(&arena);
    // the library object is shared by all requests (an ext var; a cached import behaves the same)
    let lib = session
        .load_virt_file("<lib>", b"{ assert self.replicas > 0 : 'replicas must be positive', replicas: 0, name: 'svc' }".to_vec())
        .unwrap();
    let name = session.program().intern_str("lib");
    session.program_mut().add_ext_var(name, &lib);
    let mut out = Vec::new();
    for i in 0..requests {
        let t = session
            .load_virt_file(&format!("<req{i}>"), b"std.extVar('lib').name".to_vec())
            .unwrap();
        out.push(session.eval_value(&t).and_then(|v| session.manifest_json(&v, false)));
    }
    out
}
fn main() {
    let fresh = run(1);
    let history = run(2);
    println!("fresh state:                      {:?}", fresh[0]);
    println!("same state, after a failed request: {:?}", history[1]);
    std::process::exit(if fresh[0] == history[1] { 0 } else { 1 });
}
