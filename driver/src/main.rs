// rsj-facts: rustc_private driver that dumps type-checked program facts (MIR, ADTs, impls,
// instance-level call graph) of the rsjsonnet workspace crates as JSON, one file per crate target.
//
// Used as RUSTC_WORKSPACE_WRAPPER under `cargo +nightly check`. No execution of the analysed code.
#![feature(rustc_private)]
#![allow(clippy::all)]

extern crate rustc_abi;
extern crate rustc_data_structures;
extern crate rustc_driver;
extern crate rustc_hir;
extern crate rustc_index;
extern crate rustc_interface;
extern crate rustc_lint;
extern crate rustc_middle;
extern crate rustc_session;
extern crate rustc_span;

use std::collections::{BTreeMap, HashMap, HashSet, VecDeque};
use std::fmt::Write as _;

use rustc_driver::{Callbacks, Compilation};
use rustc_hir::def::DefKind;
use rustc_hir::def_id::{DefId, LOCAL_CRATE};
use rustc_middle::mir::{
    self, AggregateKind, BasicBlock, Body, CastKind, Operand, Place, ProjectionElem, Rvalue,
    StatementKind, TerminatorKind, UnwindAction,
};
use rustc_middle::ty::print::with_no_trimmed_paths;
use rustc_middle::ty::TypeVisitableExt;
use rustc_middle::ty::{self, EarlyBinder, GenericArgKind, Instance, InstanceKind, Ty, TyCtxt, TypingEnv};
use rustc_span::Span;

// ------------------------------------------------------------------------------------------------
// minimal JSON value

#[derive(Clone, Debug)]
enum J {
    Null,
    Bool(bool),
    Int(i128),
    Str(String),
    Arr(Vec<J>),
    Obj(Vec<(&'static str, J)>),
}

impl J {
    fn write(&self, out: &mut String) {
        match self {
            J::Null => out.push_str("null"),
            J::Bool(b) => out.push_str(if *b { "true" } else { "false" }),
            J::Int(i) => {
                let _ = write!(out, "{i}");
            }
            J::Str(s) => write_json_str(s, out),
            J::Arr(a) => {
                out.push('[');
                for (i, v) in a.iter().enumerate() {
                    if i > 0 {
                        out.push(',');
                    }
                    v.write(out);
                }
                out.push(']');
            }
            J::Obj(o) => {
                out.push('{');
                for (i, (k, v)) in o.iter().enumerate() {
                    if i > 0 {
                        out.push(',');
                    }
                    write_json_str(k, out);
                    out.push(':');
                    v.write(out);
                }
                out.push('}');
            }
        }
    }
}

fn write_json_str(s: &str, out: &mut String) {
    out.push('"');
    for c in s.chars() {
        match c {
            '"' => out.push_str("\\\""),
            '\\' => out.push_str("\\\\"),
            '\n' => out.push_str("\\n"),
            '\r' => out.push_str("\\r"),
            '\t' => out.push_str("\\t"),
            c if (c as u32) < 0x20 => {
                let _ = write!(out, "\\u{:04x}", c as u32);
            }
            c => out.push(c),
        }
    }
    out.push('"');
}

fn js(s: impl Into<String>) -> J {
    J::Str(s.into())
}
fn ji(i: impl TryInto<i128>) -> J {
    J::Int(i.try_into().ok().unwrap_or(-1))
}
fn jopt<T>(o: Option<T>, f: impl FnOnce(T) -> J) -> J {
    match o {
        Some(v) => f(v),
        None => J::Null,
    }
}

// ------------------------------------------------------------------------------------------------

struct Cx<'tcx> {
    tcx: TyCtxt<'tcx>,
    crate_name: String,
    types: Vec<J>,
    type_ix: HashMap<Ty<'tcx>, usize>,
    spans: Vec<String>,
    span_ix: HashMap<String, usize>,
    qname_cache: HashMap<DefId, String>,
    adts_seen: Vec<DefId>,
    adts_set: HashSet<DefId>,
}

impl<'tcx> Cx<'tcx> {
    fn krate_name(&self, def_id: DefId) -> String {
        if def_id.is_local() {
            self.crate_name.clone()
        } else {
            self.tcx.crate_name(def_id.krate).to_string()
        }
    }

    /// Plain module path of a non-impl item: `krate::a::b::Name` (impl segments rendered through
    /// their qname so that nested items stay stable).
    fn plain_path(&mut self, def_id: DefId) -> String {
        let tcx = self.tcx;
        let key = tcx.def_key(def_id);
        match key.parent {
            None => self.krate_name(def_id),
            Some(pidx) => {
                let parent = DefId { krate: def_id.krate, index: pidx };
                let pq = self.qname(parent);
                let seg = match key.disambiguated_data.data.get_opt_name() {
                    Some(n) => {
                        if key.disambiguated_data.disambiguator != 0 {
                            format!("{}#{}", n, key.disambiguated_data.disambiguator)
                        } else {
                            n.to_string()
                        }
                    }
                    None => format!(
                        "{{{:?}#{}}}",
                        key.disambiguated_data.data, key.disambiguated_data.disambiguator
                    ),
                };
                format!("{pq}::{seg}")
            }
        }
    }

    /// Canonical, generics-free name of a definition.
    ///   free fn / ADT / trait / mod:   krate::mod::Name
    ///   inherent impl item:            <krate::mod::SelfAdt>::name        (or <SelfTyString>::name)
    ///   trait impl item:               <SelfAdt as krate::Trait>::name
    ///   trait item decl:               krate::Trait::name
    ///   closure:                       <parent qname>::{closure#N}
    fn qname(&mut self, def_id: DefId) -> String {
        if let Some(s) = self.qname_cache.get(&def_id) {
            return s.clone();
        }
        let tcx = self.tcx;
        let kind = tcx.def_kind(def_id);
        let s = match kind {
            DefKind::Impl { .. } => {
                let self_ty = tcx.type_of(def_id).instantiate_identity().skip_norm_wip();
                let self_s = self.ty_head(self_ty);
                match tcx.impl_opt_trait_ref(def_id) {
                    Some(tr) => {
                        let tr = tr.instantiate_identity().skip_norm_wip();
                        let tq = self.qname(tr.def_id);
                        format!("<{self_s} as {tq}>")
                    }
                    None => format!("<{self_s}>"),
                }
            }
            DefKind::Closure => {
                let parent = tcx.parent(def_id);
                let pq = self.qname(parent);
                let key = tcx.def_key(def_id);
                format!("{pq}::{{closure#{}}}", key.disambiguated_data.disambiguator)
            }
            _ => self.plain_path(def_id),
        };
        self.qname_cache.insert(def_id, s.clone());
        s
    }

    /// Head of a type for use inside qnames: ADT path without generics, or the type string.
    fn ty_head(&mut self, ty: Ty<'tcx>) -> String {
        match ty.kind() {
            ty::Adt(adt, _) => self.qname(adt.did()),
            ty::Ref(_, inner, m) => {
                let h = self.ty_head(*inner);
                if m.is_mut() { format!("&mut {h}") } else { format!("&{h}") }
            }
            ty::Slice(inner) => format!("[{}]", self.ty_head(*inner)),
            ty::Array(inner, _) => format!("[{}; N]", self.ty_head(*inner)),
            ty::Param(p) => p.name.to_string(),
            ty::Tuple(ts) => {
                let parts: Vec<String> = ts.iter().map(|t| self.ty_head(t)).collect();
                format!("({})", parts.join(", "))
            }
            _ => with_no_trimmed_paths!(format!("{ty}")),
        }
    }

    fn span(&mut self, sp: Span) -> usize {
        let sm = self.tcx.sess.source_map();
        // use the outermost call site for macro-expanded spans so that file:line is in the repo
        let sp0 = sp.source_callsite();
        let lo = sm.lookup_char_pos(sp0.lo());
        let s = format!(
            "{}:{}:{}",
            lo.file.name.prefer_local_unconditionally(),
            lo.line,
            lo.col.0 + 1
        );
        if let Some(&i) = self.span_ix.get(&s) {
            return i;
        }
        let i = self.spans.len();
        self.spans.push(s.clone());
        self.span_ix.insert(s, i);
        i
    }

    fn macro_name(&self, sp: Span) -> J {
        if sp.from_expansion() {
            let data = sp.ctxt().outer_expn_data();
            match data.kind {
                rustc_span::ExpnKind::Macro(_, name) => js(name.to_string()),
                rustc_span::ExpnKind::Desugaring(d) => js(format!("desugar:{:?}", d)),
                rustc_span::ExpnKind::AstPass(p) => js(format!("astpass:{:?}", p)),
                rustc_span::ExpnKind::Root => js("root"),
            }
        } else {
            J::Null
        }
    }

    fn note_adt(&mut self, did: DefId) {
        if self.adts_set.insert(did) {
            self.adts_seen.push(did);
        }
    }

    fn ty(&mut self, ty: Ty<'tcx>) -> usize {
        if let Some(&i) = self.type_ix.get(&ty) {
            return i;
        }
        // reserve slot first (recursive types through ADT args are finite, but keep it simple)
        let i = self.types.len();
        self.types.push(J::Null);
        self.type_ix.insert(ty, i);
        let s = with_no_trimmed_paths!(format!("{ty}"));
        let mut o: Vec<(&'static str, J)> = Vec::new();
        match ty.kind() {
            ty::Bool | ty::Char | ty::Int(_) | ty::Uint(_) | ty::Float(_) | ty::Str | ty::Never => {
                o.push(("k", js("prim")));
            }
            ty::Adt(adt, args) => {
                self.note_adt(adt.did());
                o.push(("k", js("adt")));
                o.push(("d", js(self.qname(adt.did()))));
                o.push(("a", self.generic_args(args)));
            }
            ty::Ref(_, t, m) => {
                o.push(("k", js("ref")));
                o.push(("m", J::Bool(m.is_mut())));
                o.push(("t", ji(self.ty(*t))));
            }
            ty::RawPtr(t, m) => {
                o.push(("k", js("ptr")));
                o.push(("m", J::Bool(m.is_mut())));
                o.push(("t", ji(self.ty(*t))));
            }
            ty::Slice(t) => {
                o.push(("k", js("slice")));
                o.push(("t", ji(self.ty(*t))));
            }
            ty::Array(t, n) => {
                o.push(("k", js("array")));
                o.push(("t", ji(self.ty(*t))));
                o.push(("n", js(format!("{n}"))));
            }
            ty::Tuple(ts) => {
                o.push(("k", js("tuple")));
                let v: Vec<J> = ts.iter().map(|t| ji(self.ty(t))).collect();
                o.push(("ts", J::Arr(v)));
            }
            ty::FnDef(did, args) => {
                o.push(("k", js("fndef")));
                o.push(("d", js(self.qname(*did))));
                o.push(("a", self.generic_args(args)));
            }
            ty::FnPtr(sig_tys, _hdr) => {
                o.push(("k", js("fnptr")));
                let sig = sig_tys.skip_binder();
                let ins: Vec<J> = sig.inputs().iter().map(|t| ji(self.ty(*t))).collect();
                o.push(("in", J::Arr(ins)));
                o.push(("out", ji(self.ty(sig.output()))));
            }
            ty::Closure(did, args) => {
                o.push(("k", js("closure")));
                o.push(("d", js(self.qname(*did))));
                let ups: Vec<J> =
                    args.as_closure().upvar_tys().iter().map(|t| ji(self.ty(t))).collect();
                o.push(("up", J::Arr(ups)));
            }
            ty::Param(p) => {
                o.push(("k", js("param")));
                o.push(("n", js(p.name.to_string())));
            }
            ty::Dynamic(preds, _) => {
                o.push(("k", js("dyn")));
                let p = preds.principal_def_id();
                o.push(("d", jopt(p, |d| js(self.qname(d)))));
            }
            ty::Alias(..) => {
                o.push(("k", js("alias")));
            }
            _ => {
                o.push(("k", js("other")));
            }
        }
        o.push(("s", js(s)));
        self.types[i] = J::Obj(o);
        i
    }

    fn generic_args(&mut self, args: ty::GenericArgsRef<'tcx>) -> J {
        let mut v = Vec::new();
        for a in args.iter() {
            match a.kind() {
                GenericArgKind::Type(t) => v.push(ji(self.ty(t))),
                GenericArgKind::Lifetime(_) => {}
                GenericArgKind::Const(c) => v.push(js(format!("const {c}"))),
            }
        }
        J::Arr(v)
    }

    // --------------------------------------------------------------------------------------------
    // MIR

    fn place(&mut self, body: &Body<'tcx>, place: Place<'tcx>) -> J {
        let tcx = self.tcx;
        let mut pty = mir::PlaceTy::from_ty(body.local_decls[place.local].ty);
        let mut projs = Vec::new();
        for elem in place.projection.iter() {
            let pj = match elem {
                ProjectionElem::Deref => js("*"),
                ProjectionElem::Field(f, fty) => {
                    let mut name = J::Null;
                    match pty.ty.kind() {
                        ty::Adt(adt, _) => {
                            let vi = pty.variant_index.unwrap_or(rustc_abi::FIRST_VARIANT);
                            if vi.as_usize() < adt.variants().len() {
                                let v = adt.variant(vi);
                                if f.as_usize() < v.fields.len() {
                                    name = js(v.fields[f].name.to_string());
                                }
                            }
                        }
                        _ => {}
                    }
                    let oi = self.ty(pty.ty);
                    J::Obj(vec![
                        ("k", js("f")),
                        ("i", ji(f.as_usize())),
                        ("n", name),
                        ("t", ji(self.ty(fty))),
                        ("o", ji(oi)),
                    ])
                }
                ProjectionElem::Downcast(name, vi) => {
                    let n = match name {
                        Some(n) => n.to_string(),
                        None => match pty.ty.kind() {
                            ty::Adt(adt, _) if vi.as_usize() < adt.variants().len() => {
                                adt.variant(vi).name.to_string()
                            }
                            _ => format!("#{}", vi.as_usize()),
                        },
                    };
                    let oi = self.ty(pty.ty);
                    J::Obj(vec![("k", js("d")), ("v", js(n)), ("i", ji(vi.as_usize())), ("o", ji(oi))])
                }
                ProjectionElem::Index(l) => J::Obj(vec![("k", js("i")), ("l", ji(l.as_usize()))]),
                ProjectionElem::ConstantIndex { offset, min_length, from_end } => J::Obj(vec![
                    ("k", js("ci")),
                    ("o", ji(offset)),
                    ("min", ji(min_length)),
                    ("fe", J::Bool(from_end)),
                ]),
                ProjectionElem::Subslice { from, to, from_end } => J::Obj(vec![
                    ("k", js("ss")),
                    ("from", ji(from)),
                    ("to", ji(to)),
                    ("fe", J::Bool(from_end)),
                ]),
                _ => J::Obj(vec![("k", js("o"))]),
            };
            projs.push(pj);
            pty = pty.projection_ty(tcx, elem);
        }
        let t = self.ty(pty.ty);
        J::Obj(vec![("l", ji(place.local.as_usize())), ("p", J::Arr(projs)), ("t", ji(t))])
    }

    fn constant(&mut self, owner: DefId, c: &mir::ConstOperand<'tcx>) -> J {
        let tcx = self.tcx;
        let ty = c.const_.ty();
        let mut o: Vec<(&'static str, J)> = vec![("k", js("const")), ("t", ji(self.ty(ty)))];
        let disp = with_no_trimmed_paths!(format!("{}", c.const_));
        let mut disp_t: String = disp.chars().take(300).collect();
        if disp_t.len() < disp.len() {
            disp_t.push_str("…");
        }
        o.push(("s", js(disp_t)));
        let tenv = TypingEnv::post_analysis(tcx, owner);
        match ty.kind() {
            ty::Bool | ty::Char | ty::Int(_) | ty::Uint(_) => {
                if let Some(si) = c.const_.try_eval_scalar_int(tcx, tenv) {
                    let size = si.size();
                    let bits = si.to_bits(size);
                    let v: i128 = match ty.kind() {
                        ty::Int(_) => size.sign_extend(bits) as i128,
                        _ => bits as i128,
                    };
                    o.push(("v", J::Int(v)));
                }
            }
            ty::Float(_) => {
                if let Some(si) = c.const_.try_eval_scalar_int(tcx, tenv) {
                    let size = si.size();
                    o.push(("bits", J::Int(si.to_bits(size) as i128)));
                }
            }
            ty::Ref(_, inner, _) if inner.is_str() => {
                if let Ok(cv) = c.const_.eval(tcx, tenv, c.span) {
                    if let Some(bytes) = cv.try_get_slice_bytes_for_diagnostics(tcx) {
                        o.push(("str", js(String::from_utf8_lossy(bytes).into_owned())));
                    }
                }
            }
            ty::Ref(_, inner, _)
                if matches!(inner.kind(), ty::Slice(t) if *t == tcx.types.u8) =>
            {
                if let Ok(cv) = c.const_.eval(tcx, tenv, c.span) {
                    if let Some(bytes) = cv.try_get_slice_bytes_for_diagnostics(tcx) {
                        let v: Vec<J> = bytes.iter().map(|b| J::Int(*b as i128)).collect();
                        o.push(("bytes", J::Arr(v)));
                    }
                }
            }
            _ => {}
        }
        // promoted reference
        if let mir::Const::Unevaluated(uv, _) = c.const_ {
            if let Some(p) = uv.promoted {
                o.push(("promoted", ji(p.as_usize())));
            } else {
                o.push(("unevaluated", js(self.qname(uv.def))));
            }
        }
        J::Obj(o)
    }

    fn operand(&mut self, owner: DefId, body: &Body<'tcx>, op: &Operand<'tcx>) -> J {
        match op {
            Operand::Copy(p) => {
                let mut j = self.place(body, *p);
                if let J::Obj(o) = &mut j {
                    o.insert(0, ("k", js("copy")));
                }
                j
            }
            Operand::Move(p) => {
                let mut j = self.place(body, *p);
                if let J::Obj(o) = &mut j {
                    o.insert(0, ("k", js("move")));
                }
                j
            }
            Operand::Constant(c) => self.constant(owner, c),
            _ => J::Obj(vec![("k", js("rtcheck"))]),
        }
    }

    fn rvalue(&mut self, owner: DefId, body: &Body<'tcx>, rv: &Rvalue<'tcx>) -> J {
        match rv {
            Rvalue::Use(op, _) => J::Obj(vec![("k", js("use")), ("x", self.operand(owner, body, op))]),
            Rvalue::Repeat(op, n) => J::Obj(vec![
                ("k", js("repeat")),
                ("x", self.operand(owner, body, op)),
                ("n", js(format!("{n}"))),
            ]),
            Rvalue::Ref(_, bk, p) => J::Obj(vec![
                ("k", js("ref")),
                ("m", J::Bool(matches!(bk, mir::BorrowKind::Mut { .. }))),
                ("p", self.place(body, *p)),
            ]),
            Rvalue::RawPtr(kind, p) => J::Obj(vec![
                ("k", js("rawptr")),
                ("m", J::Bool(matches!(kind, mir::RawPtrKind::Mut))),
                ("p", self.place(body, *p)),
            ]),
            Rvalue::Cast(kind, op, ty) => {
                let ks = match kind {
                    CastKind::PointerCoercion(pc, _) => format!("PointerCoercion:{:?}", pc),
                    k => format!("{:?}", k),
                };
                J::Obj(vec![
                    ("k", js("cast")),
                    ("ck", js(ks)),
                    ("x", self.operand(owner, body, op)),
                    ("t", ji(self.ty(*ty))),
                ])
            }
            Rvalue::BinaryOp(op, ab) => J::Obj(vec![
                ("k", js("binop")),
                ("op", js(format!("{:?}", op))),
                ("a", self.operand(owner, body, &ab.0)),
                ("b", self.operand(owner, body, &ab.1)),
            ]),
            Rvalue::UnaryOp(op, a) => J::Obj(vec![
                ("k", js("unop")),
                ("op", js(format!("{:?}", op))),
                ("a", self.operand(owner, body, a)),
            ]),
            Rvalue::Discriminant(p) => {
                let pty = p.ty(&body.local_decls, self.tcx).ty;
                let adt = match pty.kind() {
                    ty::Adt(a, _) => js(self.qname(a.did())),
                    _ => J::Null,
                };
                J::Obj(vec![("k", js("discr")), ("p", self.place(body, *p)), ("adt", adt)])
            }
            Rvalue::Aggregate(kind, ops) => {
                let mut o: Vec<(&'static str, J)> = vec![("k", js("agg"))];
                match &**kind {
                    AggregateKind::Array(t) => {
                        o.push(("ak", js("array")));
                        o.push(("t", ji(self.ty(*t))));
                    }
                    AggregateKind::Tuple => o.push(("ak", js("tuple"))),
                    AggregateKind::Adt(did, vi, args, _, active) => {
                        self.note_adt(*did);
                        let adt = self.tcx.adt_def(*did);
                        o.push(("ak", js("adt")));
                        o.push(("adt", js(self.qname(*did))));
                        let v = adt.variant(*vi);
                        o.push(("v", js(v.name.to_string())));
                        o.push(("vi", ji(vi.as_usize())));
                        let names: Vec<J> = match active {
                            Some(f) => vec![js(v.fields[*f].name.to_string())],
                            None => v.fields.iter().map(|f| js(f.name.to_string())).collect(),
                        };
                        o.push(("fn", J::Arr(names)));
                        o.push(("ga", self.generic_args(args)));
                    }
                    AggregateKind::Closure(did, _args) => {
                        o.push(("ak", js("closure")));
                        o.push(("d", js(self.qname(*did))));
                    }
                    AggregateKind::RawPtr(..) => o.push(("ak", js("rawptr"))),
                    _ => o.push(("ak", js("other"))),
                }
                let xs: Vec<J> = ops.iter().map(|op| self.operand(owner, body, op)).collect();
                o.push(("xs", J::Arr(xs)));
                J::Obj(o)
            }
            Rvalue::CopyForDeref(p) => {
                let mut j = self.place(body, *p);
                if let J::Obj(o) = &mut j {
                    o.insert(0, ("k", js("copy")));
                }
                J::Obj(vec![("k", js("use")), ("x", j)])
            }
            Rvalue::ThreadLocalRef(d) => J::Obj(vec![("k", js("tls")), ("d", js(self.qname(*d)))]),
            Rvalue::WrapUnsafeBinder(op, _) => {
                J::Obj(vec![("k", js("use")), ("x", self.operand(owner, body, op))])
            }
        }
    }

    fn callee(
        &mut self,
        owner: DefId,
        func: &Operand<'tcx>,
        body: &Body<'tcx>,
    ) -> J {
        let tcx = self.tcx;
        let fty = func.ty(&body.local_decls, tcx);
        match fty.kind() {
            ty::FnDef(did, args) => {
                let mut o: Vec<(&'static str, J)> = vec![("k", js("def"))];
                o.push(("d", js(self.qname(*did))));
                o.push(("ga", self.generic_args(args)));
                o.push(("local", J::Bool(did.is_local())));
                // resolve at the identity substitution of the caller
                let tenv = TypingEnv::post_analysis(tcx, owner);
                let res = if matches!(tcx.def_kind(*did), DefKind::Fn | DefKind::AssocFn | DefKind::Ctor(..)) {
                    match tcx.def_kind(*did) {
                        DefKind::Ctor(..) => None,
                        _ => Instance::try_resolve(tcx, tenv, *did, args).ok().flatten(),
                    }
                } else {
                    None
                };
                match res {
                    Some(inst) => {
                        let rd = inst.def_id();
                        o.push(("r", js(self.qname(rd))));
                        o.push(("rlocal", J::Bool(rd.is_local())));
                        let ik = match inst.def {
                            InstanceKind::Item(_) => "item",
                            InstanceKind::Virtual(..) => "virtual",
                            InstanceKind::Intrinsic(_) => "intrinsic",
                            InstanceKind::DropGlue(..) => "dropglue",
                            InstanceKind::CloneShim(..) => "cloneshim",
                            InstanceKind::FnPtrShim(..) => "fnptrshim",
                            InstanceKind::ClosureOnceShim { .. } => "closureonce",
                            InstanceKind::ReifyShim(..) => "reify",
                            _ => "othershim",
                        };
                        o.push(("rk", js(ik)));
                        o.push(("rga", self.generic_args(inst.args)));
                    }
                    None => {
                        o.push(("r", J::Null));
                    }
                }
                // for trait methods: self type
                if let Some(trait_did) = tcx.trait_of_assoc(*did) {
                    o.push(("trait", js(self.qname(trait_did))));
                    if args.len() > 0 {
                        if let Some(t) = args.get(0).and_then(|a| a.as_type()) {
                            o.push(("self", ji(self.ty(t))));
                        }
                    }
                } else if let Some(impl_did) = tcx.inherent_impl_of_assoc(*did) {
                    let st = tcx.type_of(impl_did).instantiate_identity().skip_norm_wip();
                    o.push(("implself", js(self.ty_head(st))));
                }
                J::Obj(o)
            }
            _ => {
                let mut o: Vec<(&'static str, J)> = vec![("k", js("indirect"))];
                o.push(("t", ji(self.ty(fty))));
                o.push(("x", self.operand(owner, body, func)));
                J::Obj(o)
            }
        }
    }

    fn unwind(&self, u: &UnwindAction) -> J {
        match u {
            UnwindAction::Cleanup(bb) => ji(bb.as_usize()),
            _ => J::Null,
        }
    }

    fn body(&mut self, owner: DefId, body: &Body<'tcx>) -> J {
        let tcx = self.tcx;
        let mut locals = Vec::new();
        for (_l, decl) in body.local_decls.iter_enumerated() {
            locals.push(J::Obj(vec![
                ("t", ji(self.ty(decl.ty))),
                ("m", J::Bool(decl.mutability.is_mut())),
            ]));
        }
        let mut names = Vec::new();
        for vdi in &body.var_debug_info {
            if let mir::VarDebugInfoContents::Place(p) = &vdi.value {
                names.push(J::Obj(vec![
                    ("n", js(vdi.name.to_string())),
                    ("p", self.place(body, *p)),
                    ("arg", jopt(vdi.argument_index, |a| ji(a))),
                ]));
            }
        }
        let mut blocks = Vec::new();
        for (_bb, data) in body.basic_blocks.iter_enumerated() {
            let mut stmts = Vec::new();
            for st in &data.statements {
                let sp = st.source_info.span;
                match &st.kind {
                    StatementKind::Assign(b) => {
                        let (pl, rv) = &**b;
                        stmts.push(J::Obj(vec![
                            ("k", js("assign")),
                            ("p", self.place(body, *pl)),
                            ("rv", self.rvalue(owner, body, rv)),
                            ("sp", ji(self.span(sp))),
                            ("mac", self.macro_name(sp)),
                        ]));
                    }
                    StatementKind::SetDiscriminant { place, variant_index } => {
                        stmts.push(J::Obj(vec![
                            ("k", js("setdiscr")),
                            ("p", self.place(body, **place)),
                            ("vi", ji(variant_index.as_usize())),
                            ("sp", ji(self.span(sp))),
                        ]));
                    }
                    StatementKind::StorageDead(l) => {
                        stmts.push(J::Obj(vec![("k", js("dead")), ("l", ji(l.as_usize()))]));
                    }
                    StatementKind::Intrinsic(_) => {
                        stmts.push(J::Obj(vec![("k", js("intrinsic")), ("sp", ji(self.span(sp)))]));
                    }
                    _ => {}
                }
            }
            let term = data.terminator();
            let sp = term.source_info.span;
            let mut t: Vec<(&'static str, J)> = Vec::new();
            match &term.kind {
                TerminatorKind::Goto { target } => {
                    t.push(("k", js("goto")));
                    t.push(("t", ji(target.as_usize())));
                }
                TerminatorKind::SwitchInt { discr, targets } => {
                    t.push(("k", js("switch")));
                    t.push(("x", self.operand(owner, body, discr)));
                    let dty = discr.ty(&body.local_decls, tcx);
                    t.push(("dt", ji(self.ty(dty))));
                    let mut arms = Vec::new();
                    for (v, bb) in targets.iter() {
                        // sign-extend for signed discriminants
                        let vv: i128 = match dty.kind() {
                            ty::Int(it) => {
                                let bits = it.bit_width().unwrap_or(64);
                                let size = rustc_abi::Size::from_bits(bits);
                                size.sign_extend(v) as i128
                            }
                            _ => v as i128,
                        };
                        arms.push(J::Arr(vec![J::Int(vv), ji(bb.as_usize())]));
                    }
                    t.push(("arms", J::Arr(arms)));
                    t.push(("else", ji(targets.otherwise().as_usize())));
                }
                TerminatorKind::UnwindResume => t.push(("k", js("resume"))),
                TerminatorKind::UnwindTerminate(_) => t.push(("k", js("terminate"))),
                TerminatorKind::Return => t.push(("k", js("return"))),
                TerminatorKind::Unreachable => t.push(("k", js("unreachable"))),
                TerminatorKind::Drop { place, target, unwind, .. } => {
                    t.push(("k", js("drop")));
                    t.push(("p", self.place(body, *place)));
                    t.push(("t", ji(target.as_usize())));
                    t.push(("uw", self.unwind(unwind)));
                }
                TerminatorKind::Call { func, args, destination, target, unwind, fn_span, .. } => {
                    t.push(("k", js("call")));
                    t.push(("f", self.callee(owner, func, body)));
                    let xs: Vec<J> =
                        args.iter().map(|a| self.operand(owner, body, &a.node)).collect();
                    t.push(("xs", J::Arr(xs)));
                    t.push(("dst", self.place(body, *destination)));
                    t.push(("t", jopt(*target, |b: BasicBlock| ji(b.as_usize()))));
                    t.push(("uw", self.unwind(unwind)));
                    t.push(("fsp", ji(self.span(*fn_span))));
                }
                TerminatorKind::TailCall { func, args, .. } => {
                    t.push(("k", js("tailcall")));
                    t.push(("f", self.callee(owner, func, body)));
                    let xs: Vec<J> =
                        args.iter().map(|a| self.operand(owner, body, &a.node)).collect();
                    t.push(("xs", J::Arr(xs)));
                }
                TerminatorKind::Assert { cond, expected, msg, target, unwind } => {
                    t.push(("k", js("assert")));
                    t.push(("x", self.operand(owner, body, cond)));
                    t.push(("exp", J::Bool(*expected)));
                    let mk = match &**msg {
                        mir::AssertKind::BoundsCheck { .. } => "BoundsCheck".to_string(),
                        mir::AssertKind::Overflow(op, ..) => format!("Overflow:{:?}", op),
                        mir::AssertKind::OverflowNeg(_) => "OverflowNeg".to_string(),
                        mir::AssertKind::DivisionByZero(_) => "DivisionByZero".to_string(),
                        mir::AssertKind::RemainderByZero(_) => "RemainderByZero".to_string(),
                        _ => "Other".to_string(),
                    };
                    t.push(("msg", js(mk)));
                    t.push(("t", ji(target.as_usize())));
                    t.push(("uw", self.unwind(unwind)));
                }
                TerminatorKind::FalseEdge { real_target, .. } => {
                    t.push(("k", js("goto")));
                    t.push(("t", ji(real_target.as_usize())));
                }
                TerminatorKind::FalseUnwind { real_target, .. } => {
                    t.push(("k", js("goto")));
                    t.push(("t", ji(real_target.as_usize())));
                }
                _ => t.push(("k", js("other"))),
            }
            t.push(("sp", ji(self.span(sp))));
            t.push(("mac", self.macro_name(sp)));
            blocks.push(J::Obj(vec![
                ("s", J::Arr(stmts)),
                ("t", J::Obj(t)),
                ("cleanup", J::Bool(data.is_cleanup)),
            ]));
        }
        J::Obj(vec![
            ("argc", ji(body.arg_count)),
            ("locals", J::Arr(locals)),
            ("names", J::Arr(names)),
            ("blocks", J::Arr(blocks)),
        ])
    }

    // --------------------------------------------------------------------------------------------

    fn vis(&mut self, def_id: DefId) -> J {
        let tcx = self.tcx;
        match tcx.visibility(def_id) {
            ty::Visibility::Public => js("pub"),
            ty::Visibility::Restricted(m) => {
                if m.is_top_level_module() {
                    js("crate")
                } else {
                    js(format!("in:{}", self.qname(m)))
                }
            }
        }
    }

    fn function(&mut self, def_id: DefId) -> J {
        let tcx = self.tcx;
        let kind = tcx.def_kind(def_id);
        let mut o: Vec<(&'static str, J)> = Vec::new();
        o.push(("q", js(self.qname(def_id))));
        o.push(("kind", js(format!("{:?}", kind))));
        o.push(("name", match tcx.opt_item_name(def_id) {
            Some(n) => js(n.to_string()),
            None => J::Null,
        }));
        o.push(("dps", js(with_no_trimmed_paths!(tcx.def_path_str(def_id)))));
        let sp = tcx.def_span(def_id);
        o.push(("sp", ji(self.span(sp))));
        o.push(("mac", self.macro_name(sp)));
        if matches!(kind, DefKind::Fn | DefKind::AssocFn) {
            o.push(("vis", self.vis(def_id)));
            let eff = tcx.effective_visibilities(());
            if let Some(ld) = def_id.as_local() {
                o.push(("reachable_pub", J::Bool(eff.is_reachable(ld))));
                o.push(("exported", J::Bool(eff.is_exported(ld))));
            }
        }
        let parent = tcx.parent(def_id);
        o.push(("parent", js(self.qname(parent))));
        if let DefKind::Impl { of_trait } = tcx.def_kind(parent) {
            let st = tcx.type_of(parent).instantiate_identity().skip_norm_wip();
            o.push(("impl_self", js(self.ty_head(st))));
            o.push(("impl_self_t", ji(self.ty(st))));
            if of_trait {
                if let Some(tr) = tcx.impl_opt_trait_ref(parent) {
                    let tr = tr.instantiate_identity().skip_norm_wip();
                    o.push(("impl_trait", js(self.qname(tr.def_id))));
                }
            }
        } else if let DefKind::Trait = tcx.def_kind(parent) {
            o.push(("in_trait", js(self.qname(parent))));
        }
        let generics = tcx.generics_of(def_id);
        o.push(("generic", J::Bool(generics.requires_monomorphization(tcx))));
        // test attribute-ish: is this inside a #[cfg(test)] module? we only see compiled items, so
        // record whether the crate was built as a test harness at the top level instead.
        let body = tcx.optimized_mir(def_id);
        o.push(("body", self.body(def_id, body)));
        let proms = tcx.promoted_mir(def_id);
        let mut pv = Vec::new();
        for p in proms.iter() {
            pv.push(self.body(def_id, p));
        }
        o.push(("promoted", J::Arr(pv)));
        J::Obj(o)
    }

    fn adt(&mut self, did: DefId) -> J {
        let tcx = self.tcx;
        let adt = tcx.adt_def(did);
        let mut o: Vec<(&'static str, J)> = Vec::new();
        o.push(("q", js(self.qname(did))));
        o.push(("local", J::Bool(did.is_local())));
        o.push(("kind", js(if adt.is_enum() {
            "enum"
        } else if adt.is_union() {
            "union"
        } else {
            "struct"
        })));
        if did.is_local() {
            o.push(("sp", ji(self.span(tcx.def_span(did)))));
            o.push(("vis", self.vis(did)));
            let eff = tcx.effective_visibilities(());
            if let Some(ld) = did.as_local() {
                o.push(("reachable_pub", J::Bool(eff.is_reachable(ld))));
                o.push(("exported", J::Bool(eff.is_exported(ld))));
            }
        }
        let generics = tcx.generics_of(did);
        let gnames: Vec<J> = generics
            .own_params
            .iter()
            .filter(|p| matches!(p.kind, ty::GenericParamDefKind::Type { .. }))
            .map(|p| js(p.name.to_string()))
            .collect();
        o.push(("tparams", J::Arr(gnames)));
        let mut vs = Vec::new();
        for (vi, v) in adt.variants().iter_enumerated() {
            let mut fs = Vec::new();
            // field details only for local ADTs and a few foreign ones we may want to look into
            for f in v.fields.iter() {
                let fty = tcx.type_of(f.did).instantiate_identity().skip_norm_wip();
                let mut fo: Vec<(&'static str, J)> = vec![
                    ("n", js(f.name.to_string())),
                    ("t", ji(self.ty(fty))),
                ];
                if did.is_local() {
                    fo.push(("vis", self.vis(f.did)));
                }
                fs.push(J::Obj(fo));
            }
            let discr = if adt.is_enum() {
                let d = adt.discriminant_for_variant(tcx, vi);
                let v: i128 = match d.ty.kind() {
                    ty::Int(it) => {
                        let bits = it.bit_width().unwrap_or(64);
                        rustc_abi::Size::from_bits(bits).sign_extend(d.val) as i128
                    }
                    _ => d.val as i128,
                };
                J::Int(v)
            } else {
                J::Null
            };
            vs.push(J::Obj(vec![
                ("n", js(v.name.to_string())),
                ("discr", discr),
                ("fields", J::Arr(fs)),
            ]));
        }
        o.push(("variants", J::Arr(vs)));
        o.push(("has_drop", J::Bool(adt.destructor(tcx).is_some())));
        J::Obj(o)
    }

    fn impls(&mut self) -> J {
        let tcx = self.tcx;
        let mut out = Vec::new();
        let items = tcx.hir_crate_items(());
        for ld in items.definitions() {
            let did = ld.to_def_id();
            if let DefKind::Impl { of_trait } = tcx.def_kind(did) {
                let st = tcx.type_of(did).instantiate_identity().skip_norm_wip();
                let mut o: Vec<(&'static str, J)> = Vec::new();
                o.push(("q", js(self.qname(did))));
                o.push(("self", js(self.ty_head(st))));
                o.push(("self_t", ji(self.ty(st))));
                if of_trait {
                    if let Some(tr) = tcx.impl_opt_trait_ref(did) {
                        let tr = tr.instantiate_identity().skip_norm_wip();
                        o.push(("trait", js(self.qname(tr.def_id))));
                        o.push(("trait_ga", self.generic_args(tr.args)));
                    }
                }
                let mut its = Vec::new();
                for it in tcx.associated_items(did).in_definition_order() {
                    its.push(J::Obj(vec![
                        ("name", js(it.name().to_string())),
                        ("q", js(self.qname(it.def_id))),
                        ("kind", js(format!("{:?}", tcx.def_kind(it.def_id)))),
                    ]));
                }
                o.push(("items", J::Arr(its)));
                o.push(("sp", ji(self.span(tcx.def_span(did)))));
                o.push(("mac", self.macro_name(tcx.def_span(did))));
                out.push(J::Obj(o));
            }
        }
        J::Arr(out)
    }

    // --------------------------------------------------------------------------------------------
    // instance-level call graph

    fn inst_name(&mut self, inst: Instance<'tcx>) -> String {
        let q = self.qname(inst.def_id());
        let mut targs = Vec::new();
        for a in inst.args.iter() {
            if let GenericArgKind::Type(t) = a.kind() {
                targs.push(with_no_trimmed_paths!(format!("{t}")));
            }
        }
        let shim = match inst.def {
            InstanceKind::Item(_) => "",
            InstanceKind::Virtual(..) => "virtual:",
            InstanceKind::DropGlue(..) => "dropglue:",
            InstanceKind::Intrinsic(_) => "intrinsic:",
            InstanceKind::ClosureOnceShim { .. } => "closureonce:",
            InstanceKind::FnPtrShim(..) => "fnptrshim:",
            InstanceKind::CloneShim(..) => "cloneshim:",
            InstanceKind::ReifyShim(..) => "reify:",
            _ => "shim:",
        };
        if targs.is_empty() {
            format!("{shim}{q}")
        } else {
            format!("{shim}{q}[{}]", targs.join("; "))
        }
    }

    fn mono_graph(&mut self, fn_defs: &[DefId]) -> J {
        let tcx = self.tcx;
        let tenv = TypingEnv::fully_monomorphized();
        let mut queue: VecDeque<Instance<'tcx>> = VecDeque::new();
        let mut seen: HashSet<Instance<'tcx>> = HashSet::new();
        let mut roots = Vec::new();
        for &d in fn_defs {
            if matches!(tcx.def_kind(d), DefKind::Closure) {
                continue;
            }
            if !tcx.generics_of(d).requires_monomorphization(tcx) {
                let inst = Instance::mono(tcx, d);
                roots.push(js(self.inst_name(inst)));
                if seen.insert(inst) {
                    queue.push_back(inst);
                }
            }
        }
        let mut nodes: Vec<J> = Vec::new();
        let mut steps = 0usize;
        while let Some(inst) = queue.pop_front() {
            steps += 1;
            if steps > 200_000 {
                break;
            }
            let name = self.inst_name(inst);
            let def_q = self.qname(inst.def_id());
            let mut edges: Vec<J> = Vec::new();
            let descend = inst.def_id().is_local() && matches!(inst.def, InstanceKind::Item(_));
            if descend && tcx.is_mir_available(inst.def_id()) {
                let body = tcx.optimized_mir(inst.def_id());
                let add_edge = |this: &mut Self,
                                    edges: &mut Vec<J>,
                                    kind: &str,
                                    callee: Instance<'tcx>,
                                    bb: usize,
                                    sp: Span,
                                    queue: &mut VecDeque<Instance<'tcx>>,
                                    seen: &mut HashSet<Instance<'tcx>>| {
                    let cn = this.inst_name(callee);
                    let cq = this.qname(callee.def_id());
                    edges.push(J::Obj(vec![
                        ("k", js(kind)),
                        ("to", js(cn)),
                        ("to_def", js(cq)),
                        ("to_local", J::Bool(callee.def_id().is_local())),
                        ("bb", ji(bb)),
                        ("sp", ji(this.span(sp))),
                    ]));
                    if callee.def_id().is_local()
                        && matches!(callee.def, InstanceKind::Item(_))
                        && seen.insert(callee)
                    {
                        queue.push_back(callee);
                    }
                };
                for (bb, data) in body.basic_blocks.iter_enumerated() {
                    // constants of FnDef type anywhere (calls and fn-item references)
                    let mut fn_consts: Vec<(Ty<'tcx>, bool, Span, bool)> = Vec::new();
                    let mut closures: Vec<(DefId, ty::GenericArgsRef<'tcx>, Span)> = Vec::new();
                    let mut unsizes: Vec<(Ty<'tcx>, Ty<'tcx>, Span)> = Vec::new();
                    let visit_op = |op: &Operand<'tcx>, is_callee: bool, sp: Span, v: &mut Vec<(Ty<'tcx>, bool, Span, bool)>| {
                        if let Operand::Constant(c) = op {
                            let t = c.const_.ty();
                            if let ty::FnDef(..) = t.kind() {
                                v.push((t, is_callee, sp, false));
                            }
                        }
                    };
                    for st in &data.statements {
                        if let StatementKind::Assign(b) = &st.kind {
                            let sp = st.source_info.span;
                            match &b.1 {
                                Rvalue::Use(op, _) | Rvalue::Repeat(op, _) | Rvalue::UnaryOp(_, op) => {
                                    visit_op(op, false, sp, &mut fn_consts)
                                }
                                Rvalue::Cast(kind, op, target) => {
                                    if matches!(
                                        kind,
                                        CastKind::PointerCoercion(ty::adjustment::PointerCoercion::Unsize, _)
                                    ) {
                                        unsizes.push((op.ty(&body.local_decls, tcx), *target, sp));
                                    }
                                    if matches!(
                                        kind,
                                        CastKind::PointerCoercion(
                                            ty::adjustment::PointerCoercion::ReifyFnPointer(..),
                                            _
                                        )
                                    ) {
                                        // address taken and stored: not a native call from here
                                        let n0 = fn_consts.len();
                                        visit_op(op, false, sp, &mut fn_consts);
                                        for e in fn_consts[n0..].iter_mut() {
                                            e.3 = true;
                                        }
                                    } else {
                                        visit_op(op, false, sp, &mut fn_consts)
                                    }
                                }
                                Rvalue::BinaryOp(_, ab) => {
                                    visit_op(&ab.0, false, sp, &mut fn_consts);
                                    visit_op(&ab.1, false, sp, &mut fn_consts);
                                }
                                Rvalue::Aggregate(kind, ops) => {
                                    for op in ops.iter() {
                                        visit_op(op, false, sp, &mut fn_consts);
                                    }
                                    if let AggregateKind::Closure(d, a) = &**kind {
                                        closures.push((*d, *a, sp));
                                    }
                                }
                                _ => {}
                            }
                        }
                    }
                    let term = data.terminator();
                    let tsp = term.source_info.span;
                    let mut indirect: Option<Ty<'tcx>> = None;
                    match &term.kind {
                        TerminatorKind::Call { func, args, .. } | TerminatorKind::TailCall { func, args, .. } => {
                            visit_op(func, true, tsp, &mut fn_consts);
                            if !matches!(func, Operand::Constant(_)) {
                                indirect = Some(func.ty(&body.local_decls, tcx));
                            } else if let Operand::Constant(c) = func {
                                if !matches!(c.const_.ty().kind(), ty::FnDef(..)) {
                                    indirect = Some(c.const_.ty());
                                }
                            }
                            for a in args.iter() {
                                visit_op(&a.node, false, tsp, &mut fn_consts);
                            }
                        }
                        _ => {}
                    }
                    for (t, is_callee, sp, reified) in fn_consts {
                        let t = inst.instantiate_mir_and_normalize_erasing_regions(
                            tcx,
                            tenv,
                            EarlyBinder::bind(t),
                        );
                        if let ty::FnDef(did, args) = t.kind() {
                            if !matches!(tcx.def_kind(*did), DefKind::Fn | DefKind::AssocFn) {
                                continue;
                            }
                            match Instance::try_resolve(tcx, tenv, *did, args) {
                                Ok(Some(callee)) => {
                                    add_edge(
                                        self,
                                        &mut edges,
                                        if is_callee { "call" } else if reified { "reify" } else { "ref" },
                                        callee,
                                        bb.as_usize(),
                                        sp,
                                        &mut queue,
                                        &mut seen,
                                    );
                                }
                                _ => {
                                    let q = self.qname(*did);
                                    edges.push(J::Obj(vec![
                                        ("k", js("unresolved")),
                                        ("to_def", js(q)),
                                        ("bb", ji(bb.as_usize())),
                                        ("sp", ji(self.span(sp))),
                                    ]));
                                }
                            }
                        }
                    }
                    for (src, dst, sp) in unsizes {
                        let src = inst.instantiate_mir_and_normalize_erasing_regions(tcx, tenv, EarlyBinder::bind(src));
                        let dst = inst.instantiate_mir_and_normalize_erasing_regions(tcx, tenv, EarlyBinder::bind(dst));
                        let mut pairs = Vec::new();
                        unsize_pairs(src, dst, &mut pairs, 0);
                        for (impl_ty, trait_ty) in pairs {
                            if let ty::Dynamic(preds, ..) = trait_ty.kind() {
                                if let Some(principal) = preds.principal() {
                                    if impl_ty.has_escaping_bound_vars() {
                                        continue;
                                    }
                                    let trait_ref = tcx.instantiate_bound_regions_with_erased(
                                        principal.with_self_ty(tcx, impl_ty),
                                    );
                                    for entry in tcx.vtable_entries(trait_ref).iter() {
                                        if let ty::VtblEntry::Method(m) = entry {
                                            add_edge(self, &mut edges, "vtable", *m, bb.as_usize(), sp, &mut queue, &mut seen);
                                        }
                                    }
                                }
                            }
                        }
                    }
                    for (d, a, sp) in closures {
                        let a = inst.instantiate_mir_and_normalize_erasing_regions(
                            tcx,
                            tenv,
                            EarlyBinder::bind(a),
                        );
                        let callee = Instance::new_raw(d, a);
                        add_edge(self, &mut edges, "closure", callee, bb.as_usize(), sp, &mut queue, &mut seen);
                    }
                    if let Some(t) = indirect {
                        let t = inst.instantiate_mir_and_normalize_erasing_regions(
                            tcx,
                            tenv,
                            EarlyBinder::bind(t),
                        );
                        edges.push(J::Obj(vec![
                            ("k", js("indirect")),
                            ("t", js(with_no_trimmed_paths!(format!("{t}")))),
                            ("bb", ji(bb.as_usize())),
                            ("sp", ji(self.span(tsp))),
                        ]));
                    }
                }
            }
            nodes.push(J::Obj(vec![
                ("n", js(name)),
                ("def", js(def_q)),
                ("local", J::Bool(inst.def_id().is_local())),
                ("e", J::Arr(edges)),
            ]));
        }
        J::Obj(vec![("roots", J::Arr(roots)), ("nodes", J::Arr(nodes)), ("steps", ji(steps))])
    }
}

// ------------------------------------------------------------------------------------------------

fn unsize_pairs<'tcx>(src: Ty<'tcx>, dst: Ty<'tcx>, out: &mut Vec<(Ty<'tcx>, Ty<'tcx>)>, depth: usize) {
    if depth > 8 || src == dst {
        return;
    }
    match (src.kind(), dst.kind()) {
        (ty::Dynamic(..), _) => {}
        (_, ty::Dynamic(..)) => out.push((src, dst)),
        (ty::Ref(_, a, _), ty::Ref(_, b, _))
        | (ty::RawPtr(a, _), ty::RawPtr(b, _))
        | (ty::Ref(_, a, _), ty::RawPtr(b, _)) => unsize_pairs(*a, *b, out, depth + 1),
        (ty::Adt(d1, a1), ty::Adt(d2, a2)) if d1 == d2 => {
            for (x, y) in a1.types().zip(a2.types()) {
                unsize_pairs(x, y, out, depth + 1);
            }
        }
        _ => {}
    }
}

struct FactsCallbacks {
    out_dir: String,
    nonce: String,
    target_kind: String,
}

impl Callbacks for FactsCallbacks {
    fn after_analysis<'tcx>(
        &mut self,
        _compiler: &rustc_interface::interface::Compiler,
        tcx: TyCtxt<'tcx>,
    ) -> Compilation {
        let t0 = std::time::Instant::now();
        let crate_name = tcx.crate_name(LOCAL_CRATE).to_string();
        let mut cx = Cx {
            tcx,
            crate_name: crate_name.clone(),
            types: Vec::new(),
            type_ix: HashMap::new(),
            spans: Vec::new(),
            span_ix: HashMap::new(),
            qname_cache: HashMap::new(),
            adts_seen: Vec::new(),
            adts_set: HashSet::new(),
        };

        // local ADTs first
        let items = tcx.hir_crate_items(());
        for ld in items.definitions() {
            let did = ld.to_def_id();
            if matches!(tcx.def_kind(did), DefKind::Struct | DefKind::Enum | DefKind::Union) {
                cx.note_adt(did);
            }
        }

        // bodies
        let mut fn_defs: Vec<DefId> = Vec::new();
        for &ld in tcx.mir_keys(()).iter() {
            let did = ld.to_def_id();
            match tcx.def_kind(did) {
                DefKind::Fn | DefKind::AssocFn | DefKind::Closure => {
                    if tcx.is_mir_available(did) {
                        fn_defs.push(did);
                    }
                }
                _ => {}
            }
        }
        fn_defs.sort_by_key(|d| tcx.def_span(*d).lo());
        let mut fns = Vec::new();
        for &d in &fn_defs {
            fns.push(cx.function(d));
        }

        let impls = cx.impls();
        let mono = cx.mono_graph(&fn_defs);

        // ADT table (local + every foreign ADT mentioned); iterate until closed for local ADT fields
        let mut adts = Vec::new();
        let mut i = 0;
        while i < cx.adts_seen.len() {
            let did = cx.adts_seen[i];
            i += 1;
            // only expand fields of local ADTs and of foreign ADTs directly mentioned (no transitive
            // closure over std internals): foreign ADT field types are rendered but ADTs discovered
            // only through them are not expanded further.
            let before = cx.adts_seen.len();
            let j = cx.adt(did);
            if !did.is_local() {
                // drop newly discovered ADTs that came only from foreign internals
                for d in cx.adts_seen.drain(before..).collect::<Vec<_>>() {
                    cx.adts_set.remove(&d);
                }
            }
            adts.push(j);
        }

        // crate attributes
        let mut attrs = Vec::new();
        {
            // lint levels: forbid(unsafe_code)?
            let store = rustc_lint::unerased_lint_store(tcx.sess);
            if let Some(ids) = store.find_lints("unsafe_code") {
                for id in ids {
                    let las = tcx.lint_level_at_node(id.lint, rustc_hir::CRATE_HIR_ID);
                    attrs.push(J::Obj(vec![
                        ("lint", js("unsafe_code")),
                        ("level", js(format!("{:?}", las.level))),
                    ]));
                }
            }
        }

        let mut meta: BTreeMap<&'static str, J> = BTreeMap::new();
        meta.insert("crate", js(crate_name.clone()));
        meta.insert("nonce", js(self.nonce.clone()));
        meta.insert("target_kind", js(self.target_kind.clone()));
        meta.insert("rustc", js(rustc_interface::util::rustc_version_str().unwrap_or("?")));
        meta.insert("is_test_harness", J::Bool(tcx.sess.is_test_crate()));
        meta.insert("panic_strategy", js(format!("{:?}", tcx.sess.panic_strategy())));
        meta.insert("overflow_checks", J::Bool(tcx.sess.overflow_checks()));
        meta.insert("n_fns", ji(fn_defs.len()));
        meta.insert("extract_ms", ji(t0.elapsed().as_millis() as i128));

        let root = J::Obj(vec![
            ("meta", J::Obj(meta.into_iter().collect())),
            ("attrs", J::Arr(attrs)),
            ("spans", J::Arr(cx.spans.iter().map(|s| js(s.clone())).collect())),
            ("types", J::Arr(std::mem::take(&mut cx.types))),
            ("adts", J::Arr(adts)),
            ("impls", impls),
            ("fns", J::Arr(fns)),
            ("mono", mono),
        ]);
        let mut out = String::with_capacity(64 << 20);
        root.write(&mut out);
        let path = format!("{}/{}-{}.json", self.out_dir, crate_name, self.target_kind);
        let tmp = format!("{path}.tmp.{}", std::process::id());
        std::fs::write(&tmp, out).expect("write facts");
        std::fs::rename(&tmp, &path).expect("rename facts");
        Compilation::Continue
    }
}

struct NoCallbacks;
impl Callbacks for NoCallbacks {}

fn main() {
    let mut args: Vec<String> = std::env::args().collect();
    // RUSTC_WORKSPACE_WRAPPER: argv[1] is the path of the real rustc; drop it.
    if args.len() > 1 && (args[1].ends_with("rustc") || args[1].contains("/rustc")) {
        args.remove(1);
    }
    let crate_name = args
        .iter()
        .position(|a| a == "--crate-name")
        .and_then(|i| args.get(i + 1))
        .cloned()
        .unwrap_or_default();
    let wanted = ["rsjsonnet_lang", "rsjsonnet_front", "rsjsonnet"];
    let extra = std::env::var("RSJ_FACTS_CRATES").unwrap_or_default();
    let is_wanted = wanted.contains(&crate_name.as_str())
        || extra.split(',').any(|c| !c.is_empty() && c == crate_name);
    let out_dir = std::env::var("RSJ_FACTS_OUT").unwrap_or_default();
    let is_test = args.iter().any(|a| a == "--test");
    let crate_type = args
        .iter()
        .position(|a| a == "--crate-type")
        .and_then(|i| args.get(i + 1))
        .cloned()
        .unwrap_or_else(|| "bin".to_string());
    let target_kind = if is_test { format!("test-{crate_type}") } else { crate_type };
    if is_wanted && !out_dir.is_empty() {
        let mut cb = FactsCallbacks {
            out_dir,
            nonce: std::env::var("RSJ_FACTS_NONCE").unwrap_or_default(),
            target_kind,
        };
        rustc_driver::run_compiler(&args, &mut cb);
    } else {
        rustc_driver::run_compiler(&args, &mut NoCallbacks);
    }
}
