#!/bin/sh
# tools/seed_eval.sh <verif-dir> <label> <seed-id>... — evaluate seeds against the checks of a given /verif checkout
# (all 20 properties) on a scratch copy of /repo; writes seeded/<id>/verdict-<label>.json in /verif.
VDIR="$1"; LABEL="$2"; shift 2
for id in "$@"; do
  P=/verif/seeded/$id/patch.diff
  [ -f "$P" ] || continue
  TMP=$(mktemp -d /tmp/rsj-seedeval-XXXXXX)
  rsync -a --exclude target --exclude .git /repo/ $TMP/repo/
  if ! (cd $TMP/repo && git apply --whitespace=nowarn "$P") 2>/dev/null; then echo "$id does-not-apply"; rm -rf $TMP; continue; fi
  (cd $VDIR && ./check C01 --repo $TMP/repo --no-evidence >/dev/null 2>&1)
  for p in C01 C02 C03 C04 C05 C06 C07 C08 C09 C10 C11 C12 C13 C14 C15 C16 C17 C18 C19 C20; do echo $p; done | \
    xargs -P 8 -I{} sh -c "cd $VDIR && ./check {} --repo $TMP/repo --no-evidence > $TMP/{}.out 2>&1; echo \$? > $TMP/{}.rc"
  python3 - "$id" "$LABEL" "$TMP" <<'PY'
import sys,json,re,os
id,label,tmp=sys.argv[1:4]
caught={}
for i in range(1,21):
    p='C%02d'%i
    rc=open(os.path.join(tmp,p+'.rc')).read().strip()
    out=open(os.path.join(tmp,p+'.out')).read()
    keys=[l.split('key=',1)[1].strip() for l in out.splitlines() if l.lstrip().startswith('rule=') and 'key=' in l]
    if rc=='1': caught[p]=keys
    elif rc!='0': caught[p]=['ERROR rc=%s'%rc]
prop=json.load(open('/verif/seeded/%s/meta.json'%id)).get('property','')[:3]
json.dump({"id":id,"label":label,"property":prop,"caught_by":caught,"caught":bool(caught),"caught_by_own_property_check":prop in caught},
          open('/verif/seeded/%s/verdict-%s.json'%(id,label),'w'),indent=1)
print(id,label,'CAUGHT by '+', '.join('%s[%s]'%(k,'; '.join(sorted({x.split('|')[0] for x in v}))) for k,v in caught.items()) if caught else 'MISSED')
PY
  rm -rf $TMP
done
