#!/bin/sh
# tools/scratch.sh <patch> — scratch copy of /repo (no .git, no target) with a patch applied; prints the directory.
# Remove it yourself: rm -rf <dir>
P=$(readlink -f "$1")
D=$(mktemp -d /tmp/rsj-scratch-XXXXXX)
rsync -a --exclude target --exclude .git /repo/ $D/
(cd $D && git apply --whitespace=nowarn "$P") || { echo "PATCH-DOES-NOT-APPLY" >&2; rm -rf $D; exit 3; }
echo $D
