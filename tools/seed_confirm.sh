#!/bin/sh
# tools/seed_confirm.sh <seeded-id> <worktree> — re-run the seeded change's demo with the change (must fail) and
# with it reverted (must pass) in the sub-agent's scratch worktree; prints CONFIRMED / NOT-CONFIRMED.
ID="$1"; WT="$2"
D=/verif/seeded/$ID
cd "$WT" || exit 2
export CARGO_NET_OFFLINE=true
git checkout -q -- . 2>/dev/null
git apply "$D/patch.diff" || { echo "$ID PATCH-DOES-NOT-APPLY"; exit 2; }
bash "$D/demo.sh" "$WT" "$WT/target" > "$WT/confirm_with.log" 2>&1; rc1=$?
git apply -R "$D/patch.diff"
bash "$D/demo.sh" "$WT" "$WT/target" > "$WT/confirm_without.log" 2>&1; rc2=$?
if [ "$rc1" != "0" ] && [ "$rc2" = "0" ]; then echo "$ID CONFIRMED with_change_rc=$rc1 without_rc=$rc2"; else echo "$ID NOT-CONFIRMED with_change_rc=$rc1 without_rc=$rc2"; fi
tail -3 "$WT/confirm_with.log" | sed 's/^/   with: /'
tail -2 "$WT/confirm_without.log" | sed 's/^/   without: /'
