#!/usr/bin/env python3
"""tools/gen_ref_shapes.py — write tables/ref_shapes.json from the facts of /repo's current tree (run on the reference tree only):
the local ADT layouts (variant / field names with type strings) and the local functions' signatures and call fingerprints.  The
table is what rules/renames.py matches a later tree against to see through renamed functions, types, variants and fields."""
import json, os, sys
sys.path.insert(0, os.path.dirname(os.path.dirname(os.path.abspath(__file__))))
from rules import facts, renames

F = facts.load(raw=True) if "raw" in facts.load.__code__.co_varnames else facts.load()
out = {"adts": {}, "fns": {}}
for c in F.crates.values():
    if c.meta["target_kind"].startswith("test"):
        continue
    for q, a in c.adts.items():
        if a.get("local"):
            out["adts"][q] = renames.adt_shape(c, a)
    for fn in c.fns:
        out["fns"][fn.q] = renames.fn_shape(c, fn.j)
with open(os.path.join(os.path.dirname(os.path.dirname(os.path.abspath(__file__))), "tables", "ref_shapes.json"), "w") as fh:
    json.dump(out, fh, indent=0, sort_keys=True)
print(len(out["adts"]), "adts", len(out["fns"]), "fns")
