#!/bin/sh
# tools/round.sh <round-dir> <suffix> <Cxx> — store one sub-agent seed, confirm it, evaluate it with the committed checks
# (label "first"), and print the verdict.
RD="$1"; SUF="$2"; P="$3"
[ -f "$RD/$P/seed_out/patch.diff" ] || { echo "$P no deliverable"; exit 2; }
/verif/tools/seed_store.sh "$RD" "$SUF" "$P" | head -8
/verif/tools/seed_eval.sh /verif first "$P-$SUF"
