#!/bin/sh
# tools/benign_eval.sh <patch>... — behaviour-preserving changes must leave every check silent.
# For each patch: scratch copy of /repo, apply, run all 20 quick checks on the copy, write <patch>.verdict.json next to it
# ({"alarms": {Cxx: [keys]}}).  Nothing is executed from the patched tree.
for P in "$@"; do
  P=$(readlink -f "$P")
  TMP=$(mktemp -d /tmp/rsj-beneval-XXXXXX)
  rsync -a --exclude target --exclude .git /repo/ $TMP/repo/
  if ! (cd $TMP/repo && git apply --whitespace=nowarn "$P") 2>/dev/null; then echo "$P does-not-apply"; rm -rf $TMP; continue; fi
  (cd /verif && ./check C01 --repo $TMP/repo --no-evidence >/dev/null 2>&1)
  for p in C01 C02 C03 C04 C05 C06 C07 C08 C09 C10 C11 C12 C13 C14 C15 C16 C17 C18 C19 C20; do echo $p; done | \
    xargs -P 8 -I{} sh -c "cd /verif && ./check {} --repo $TMP/repo --no-evidence > $TMP/{}.out 2>&1; echo \$? > $TMP/{}.rc"
  python3 - "$P" "$TMP" <<'PY'
import sys,json,os
patch,tmp=sys.argv[1:3]
alarms={}
for i in range(1,21):
    p='C%02d'%i
    rc=open(os.path.join(tmp,p+'.rc')).read().strip()
    out=open(os.path.join(tmp,p+'.out')).read()
    keys=[l.split('key=',1)[1].strip() for l in out.splitlines() if l.lstrip().startswith('rule=') and 'key=' in l]
    if rc=='1': alarms[p]=keys
    elif rc!='0': alarms[p]=['ERROR rc=%s: %s'%(rc,out[-300:])]
json.dump({"patch":os.path.basename(patch),"alarms":alarms},open(patch+'.verdict.json','w'),indent=1)
print(os.path.relpath(patch,'/verif'), 'SILENT' if not alarms else 'ALARM '+json.dumps(alarms)[:600])
PY
  rm -rf $TMP
done
