#!/bin/sh
# tools/mutest.sh <patch-file> <Cxx> [<Cxx>...] — apply a patch to a scratch worktree of /repo and run checks on it.
set -e
PATCH=$(readlink -f "$1"); shift
WT=$(mktemp -d /tmp/rsj-wt-XXXXXX)
rmdir "$WT"
git -C /repo worktree add -q --detach "$WT" HEAD
trap 'git -C /repo worktree remove --force "$WT" >/dev/null 2>&1 || rm -rf "$WT"' EXIT
if ! git -C "$WT" apply "$PATCH"; then echo "PATCH-DOES-NOT-APPLY"; exit 3; fi
cd "$(dirname "$0")/.."
for p in "$@"; do
  ./check "$p" --repo "$WT" || true
done
