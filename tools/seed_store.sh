#!/bin/sh
# tools/seed_store.sh <round-dir> <suffix> <Cxx>... — copy a sub-agent's deliverables to seeded/<Cxx>-<suffix>/ and confirm them
# (demo fails with the patch, passes without) in the sub-agent's scratch worktree.
RD="$1"; SUF="$2"; shift 2
for P in "$@"; do
  ID="$P-$SUF"
  mkdir -p /verif/seeded/$ID
  cp -r $RD/$P/seed_out/. /verif/seeded/$ID/
  (cd $RD/$P && rm -rf seed_out_keep && cp -r seed_out seed_out_keep)
  /verif/tools/seed_confirm.sh $ID $RD/$P 2>&1 | tee /verif/seeded/$ID/confirm.log
done
