#!/usr/bin/env python3
"""Generate /verif/MANIFEST.json from the per-property table below (kept valid at all times)."""
import json
import os

HERE = os.path.dirname(os.path.dirname(os.path.abspath(__file__)))

# property -> dict(technique, text, note, design_ref)   (claimed)
CLAIMED = {}
NOT_APPLICABLE = {}


def claim(pid, technique, text, note, ref):
    CLAIMED[pid] = dict(technique=technique, text=text, note=note, ref=ref)


def na(pid, reason):
    NOT_APPLICABLE[pid] = reason


exec(open(os.path.join(HERE, "tools", "claims.py")).read())

props = [json.loads(l)["id"] for l in open(os.path.join(HERE, "properties.jsonl"))]
checks = []
for pid in props:
    if pid in CLAIMED:
        c = CLAIMED[pid]
        checks.append({
            "property_id": pid,
            "quick_cmd": "./check %s --tier quick" % pid,
            "thorough_cmd": "./check %s --tier thorough" % pid,
            "evidence_file": "evidence/%s.json" % pid,
            "replay_cmd_template": "./check %s --explain {path}" % pid,
            "engine": "rsj-facts + rules/%s.py" % pid.lower(),
            "level_claimed": {"category": "other", "text": c["text"], "design_ref": c["ref"]},
            "level_note": c["note"],
            "technique": c["technique"],
        })
not_app = [{"property_id": p, "reason": NOT_APPLICABLE.get(p, "no static rule built for this property yet in this round; it is not claimed rather than covered by a proxy")}
           for p in props if p not in CLAIMED]
man = {
    "version": 1,
    "setup_cmd": "./setup.sh",
    "hooks": {
        "guard": "--cfg rsjsonnet_verif",
        "enable": "none needed: static analysis reads the type-checked program of the unmodified tree (no hook commits exist)",
        "baseline_off_cmd": "cd /repo && cargo test --workspace --no-fail-fast --offline",
        "source_commits": [],
        "add_only": True,
    },
    "engines": [
        {"name": "rsj-facts", "path": "driver/", "serves_properties": sorted(CLAIMED),
         "kind_free_text": "rustc_private driver (RUSTC_WORKSPACE_WRAPPER under cargo +nightly check): dumps MIR, ADTs, impls, visibility and an instance-level call graph of the three workspace crates; nothing is executed"},
        {"name": "rules", "path": "rules/", "serves_properties": sorted(CLAIMED),
         "kind_free_text": "Python engines over the facts: KWALK (key-concrete path walker / finite-domain decision tables), CG (instance call graph, SCC, who-may-X), PROV (origins, gates, must-pass-through), HEIGHT (counter typestate), UNITS (byte/char unit inference), TY (ownership graph)"},
    ],
    "checks": checks,
    "not_applicable": not_app,
    "notes": "Technique family: static analysis only. Every check rebuilds facts from /repo's current working tree (cached by content hash under /verif/.cache). Known findings: /verif/known_findings.json.",
}
with open(os.path.join(HERE, "MANIFEST.json"), "w") as fh:
    json.dump(man, fh, indent=1)
print("claimed:", sorted(CLAIMED), "not_applicable:", [n["property_id"] for n in not_app])
