#!/usr/bin/env python3
"""Generate /verif/MANIFEST.json from the per-property table below (kept valid at all times)."""
import json
import os

HERE = os.path.dirname(os.path.dirname(os.path.abspath(__file__)))

# property -> dict(technique, text, note, design_ref)   (claimed)
CLAIMED = {}
NOT_APPLICABLE = {}


def claim(pid, technique, text, note, ref):
    CLAIMED[pid] = dict(technique=technique, text=text, note=note, ref=ref)


def na(pid, reason):
    NOT_APPLICABLE[pid] = reason


exec(open(os.path.join(HERE, "tools", "claims.py")).read())

# deciding methods added after the first build (appended to the technique named in claims.py)
TECH_ADD = {
 "C01": "builtin arity table (registered parameter count vs check_num_args); deep-pass completeness table; producer/consumer agreement of the object-comprehension disambiguation (scripted member sequences, no reachable unreachable!())",
 "C02": "connective and division-guard tables; def-use order rule for comprehension shadowing; visibility query and partition rules",
 "C03": "weak-count exactness: every stored handle is traced on every path",
 "C04": "once-cell memo and lazy-argument tables; small-array sort/set table; literal-only table of the finished-thunk shortcut; shared-layer-environment rule for scheduled object fields",
 "C05": "regular-language extraction of string predicates from MIR (automata product / emptiness against the YAML 1.2 core-schema patterns and against the escaper's raw set); sibling cross-check of the four manifesters; origin analysis of text sinks; field-order comparison provenance; removal-marker range arithmetic of the field list (C07.R8)",
 "C06": "gate soundness table over classify(); float->int cast classification; literal/printer provenance",
 "C07": "merge table of field states; layer-index provenance; field-read analysis of the object-add shortcut; visibility partition rule; concrete evaluation of the removal-marker index arithmetic of every reader/writer pair",
 "C08": "emptiness / early-exit tables; visibility-aware equality",
 "C09": "default-argument environment origin",
 "C10": "tail-position and callee-kind x tailstrict tables; cache-key origin of the import cycle; consumer-of-forced-element coverage in the state-push graph",
 "C11": "request schedule table; session maps frozen behind a shared reference; memo-cell origin rule",
 "C12": "flush / closed-stdout path rules; var[=val] split table; deep-pass completeness table",
 "C13": "adapter whitelist on the -J list",
 "C14": "escape, number-transition, digit-retention, span-end and surrogate-class tables; std look-alike who-may-call deny list with decoder reachability",
 "C15": "slice-layout, visibility-token and suffix-chaining tables; level provenance of resumed binary levels; comprehension disambiguation agreement",
 "C16": "renderer margin rule; guard / packed-variable identity for the span-id bit fields; append/length order on the span interner tables",
 "C17": "binary-search and pivot tables; run-flush index dependency",
 "C18": "join-separator and trim class tables; unit labels through tuples, references and closure captures; std look-alike deny list",
 "C19": "producer/consumer operand agreement and star-argument cursor tables; must-pass-through of the argument state machine; precision-0 reachability of zero trimming in the float renderers",
 "C20": "digit-value, parseInt alphabet and base64 length rules; escaper table and bulk-copy guard language; scanner-to-automaton extraction (SCANFSM) with language equality/inclusion against RFC 8259 §6 and <f64 as FromStr>; std look-alike deny list and sign-accepting integer parsers unreachable from the text decoders",
}

props = [json.loads(l)["id"] for l in open(os.path.join(HERE, "properties.jsonl"))]


def rules_as_built(pid):
    """one line per rule the check runs today, read from the evidence file its last run wrote"""
    try:
        ev = json.load(open(os.path.join(HERE, "evidence", pid + ".json")))
    except Exception:
        return ""
    rules = ev.get("coverage", {}).get("rules", {})
    out = []
    for rid in sorted(rules):
        if rid in ("anchor", "shape"):
            continue
        cl = " ".join(rules[rid].get("clause", "").split())
        if len(cl) > 230:
            cl = cl[:227].rsplit(" ", 1)[0] + "..."
        out.append("%s: %s [%d obligations]" % (rid, cl, rules[rid].get("obligations", 0)))
    return " Rules the check runs on the current tree — " + " | ".join(out) if out else ""


checks = []
for pid in props:
    if pid in CLAIMED:
        c = CLAIMED[pid]
        checks.append({
            "property_id": pid,
            "quick_cmd": "./check %s --tier quick" % pid,
            "thorough_cmd": "./check %s --tier thorough" % pid,
            "evidence_file": "evidence/%s.json" % pid,
            "replay_cmd_template": "./check %s --explain {path}" % pid,
            "engine": "rsj-facts + rules/%s.py" % pid.lower(),
            "level_claimed": {"category": "other", "text": c["text"] + rules_as_built(pid), "design_ref": c["ref"]},
            "level_note": c["note"],
            "technique": c["technique"] + ("; " + TECH_ADD[pid] if pid in TECH_ADD else ""),
        })
not_app = [{"property_id": p, "reason": NOT_APPLICABLE.get(p, "no static rule built for this property yet in this round; it is not claimed rather than covered by a proxy")}
           for p in props if p not in CLAIMED]
man = {
    "version": 1,
    "setup_cmd": "./setup.sh",
    "hooks": {
        "guard": "--cfg rsjsonnet_verif",
        "enable": "none needed: static analysis reads the type-checked program of the unmodified tree (no hook commits exist)",
        "baseline_off_cmd": "cd /repo && cargo test --workspace --no-fail-fast --offline",
        "source_commits": [],
        "add_only": True,
    },
    "engines": [
        {"name": "rsj-facts", "path": "driver/", "serves_properties": sorted(CLAIMED),
         "kind_free_text": "rustc_private driver (RUSTC_WORKSPACE_WRAPPER under cargo +nightly check): dumps MIR, ADTs, impls, visibility and an instance-level call graph of the three workspace crates; nothing is executed"},
        {"name": "rules", "path": "rules/", "serves_properties": sorted(CLAIMED),
         "kind_free_text": "Python engines over the facts: KWALK (key-concrete path walker / finite-domain decision tables), CG (instance call graph, SCC, who-may-X), PROV (origins, gates, must-pass-through), HEIGHT (counter typestate), UNITS (byte/char unit inference), TY (ownership graph), PUSHGRAPH (state-push graph with frame coverage), ENVFLOW (static environments), DFA/STRPRED/SCANFSM (regular languages of predicates and scanner loops extracted from MIR), RENAMES (structural matching of renamed functions, types, variants and fields against tables/ref_shapes.json so that the rules keep addressing the program by its reference names)"},
    ],
    "checks": checks,
    "not_applicable": not_app,
    "notes": "Technique family: static analysis only. Every check rebuilds facts from /repo's current working tree (cached by content hash under /verif/.cache). Known findings: /verif/known_findings.json.",
}
with open(os.path.join(HERE, "MANIFEST.json"), "w") as fh:
    json.dump(man, fh, indent=1)
print("claimed:", sorted(CLAIMED), "not_applicable:", [n["property_id"] for n in not_app])
