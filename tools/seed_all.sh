#!/bin/sh
# tools/seed_all.sh [ids...] — run every registered quick check against every seeded change (one at a time), write
# seeded/<id>/verdict.json and print a table.  /repo is restored after each.
cd "$(dirname "$0")/.."
IDS="$*"; [ -n "$IDS" ] || IDS=$(ls seeded | grep -v '\.md$')
for id in $IDS; do
  [ -f seeded/$id/patch.diff ] || continue
  out=$(tools/seedrun.sh $id 2>&1)
  echo "$out" > seeded/$id/checks.log
  python3 - "$id" <<'PY'
import sys,re,json
id=sys.argv[1]
log=open('/verif/seeded/%s/checks.log'%id).read()
caught={}
cur=None
for l in log.splitlines():
    m=re.match(r'^(C\d\d) exit=(\d+) violations=(\d+)',l)
    if m:
        cur=m.group(1)
        if m.group(2)!='0': caught[cur]=[]
        continue
    m=re.search(r'key=(\S.*)$',l)
    if m and cur in caught: caught[cur].append(m.group(1))
prop=json.load(open('/verif/seeded/%s/meta.json'%id)).get('property')
v={"id":id,"property":prop,"caught_by":caught,"caught":bool(caught),"caught_by_own_property_check":prop in caught}
if 'PATCH-DOES-NOT-APPLY' in log:
    v={"id":id,"property":prop,"applies":False,"note":"patch no longer applies to /repo HEAD (see meta.json)"}
    json.dump(v,open('/verif/seeded/%s/verdict.json'%id,'w'),indent=1); print(id,'DOES-NOT-APPLY'); sys.exit(0)
json.dump(v,open('/verif/seeded/%s/verdict.json'%id,'w'),indent=1)
print(id, 'CAUGHT by '+', '.join('%s[%s]'%(k,'; '.join(x.split('|')[0] for x in vs)) for k,vs in caught.items()) if caught else 'MISSED')
PY
done
