#!/bin/sh
# tools/seedrun.sh <seeded-id> [Cxx ...] — apply seeded/<id>/patch.diff to /repo's working tree, run the registered
# quick commands (default: all 20) exactly as in MANIFEST.json but without rewriting evidence, then restore /repo.
# Nothing is committed in /repo.
set -e
cd "$(dirname "$0")/.."
ID="$1"; shift
PATCH="seeded/$ID/patch.diff"
[ -f "$PATCH" ] || { echo "no $PATCH"; exit 2; }
if [ -n "$(git -C /repo status --porcelain)" ]; then echo "/repo not clean"; exit 2; fi
if ! git -C /repo apply "$(readlink -f "$PATCH")" 2>/dev/null; then echo "PATCH-DOES-NOT-APPLY $ID"; exit 3; fi
trap 'git -C /repo checkout -- . ; git -C /repo status --porcelain' EXIT
PROPS="$*"
[ -n "$PROPS" ] || PROPS="C01 C02 C03 C04 C05 C06 C07 C08 C09 C10 C11 C12 C13 C14 C15 C16 C17 C18 C19 C20"
OUT=$(mktemp -d)
./check C01 --no-evidence >/dev/null 2>&1 || true   # one extraction, shared by the rest
for p in $PROPS; do ( rc=0; ./check $p --no-evidence > "$OUT/$p.out" 2>&1 || rc=$?; echo $rc > "$OUT/$p.rc" ) & done
wait
for p in $PROPS; do
  rc=$(cat "$OUT/$p.rc"); n=$(grep -c '^VIOLATION' "$OUT/$p.out" || true)
  echo "$p exit=$rc violations=$n"
  if [ "$rc" != "0" ]; then grep 'key=\|^ERROR\|Traceback' "$OUT/$p.out" | sed 's/^/    /'; fi
done
rm -rf "$OUT"
