# Per-property claims (exec'd by gen_manifest.py).
claim("C05",
      "MIR finite-domain decision table of the string escaper vs RFC 8259 §7; taint/provenance of output sinks",
      "Decides structural necessary conditions of C05, not the round trip itself: (R1) for every Unicode scalar value the "
      "JSON/Python/TOML escaper emits only forms RFC 8259 §7 allows (exhaustive over the interval classes induced by the "
      "constants the code compares against, on every CFG path); (R5) bare keys only inside the TOML/YAML bare alphabets. "
      "A static decision table is the right level because the escaper's behaviour is a pure function of one code point and the "
      "suite samples only a handful of characters.",
      "Trusted: rustc nightly MIR construction; RFC 8259 §7 / TOML 1.0 tables transcribed in rules/c05.py; core::fmt template "
      "encoding of the pinned toolchain; <f64 as Display>. Not decided: numeric text, YAML/TOML document structure, round-trip equality.",
      "DESIGN.md §2 C05")
claim("C14",
      "MIR finite-domain decision table of the UTF-8 decoder vs Unicode Table 3-7; who-may-construct/write + exactly-one-commit path counting",
      "Decides structural necessary conditions of C14: (R3) the lexer's UTF-8 decoder accepts exactly the well-formed sequences of "
      "Unicode Table 3-7, exhaustively over all byte-class combinations and CFG paths; (R2) the trivia filter's decision table over "
      "(flag, TokenKind); (R1) tiling by construction: Token values only come from commit_token with span (old start,end) and "
      "start:=end, cursor fields have no other writers, every successful lexing path commits exactly once, EOF only at end of input. "
      "Literal values (text blocks, numbers, operator munch) are behavioural and not decided.",
      "Trusted: rustc nightly MIR; Unicode Table 3-7 transcription in rules/c14.py. Assumes SpanManager::intern_span stores what it is given (C16).",
      "DESIGN.md §2 C14")
claim("C08",
      "MIR finite-domain decision tables of the comparison/equality evaluator arms and operator lowering vs the Jsonnet spec",
      "Decides structural necessary conditions of C08: (R1) the 7x7 type-pair tables of == and < (mixed types false / specific errors, "
      "functions error), std.primitiveEquals likewise; (R2) every comparison operator and std.equals/__compare/__compare_array lowers to "
      "the same three-way/equality machinery, with the exact set of orderings mapped to true for <,<=,>,>= and !=(negation); (R3) primitive "
      "comparisons delegate to f64 ==/partial_cmp and str Eq/Ord; (R4) array equality/ordering continuation and early-exit tables. "
      "All enumerated exhaustively over operand variants, orderings and CFG paths. Reflexivity/symmetry/transitivity over values are not decided.",
      "Trusted: rustc MIR; spec tables transcribed in rules/c08.py; std f64/str comparison semantics; C06 (no NaN) for totality of partial_cmp.",
      "DESIGN.md §2 C08")
claim("C17",
      "MIR finite-domain decision tables (per popped Ordering, concrete cursors) of the sort/min/max/set-walk handlers",
      "Decides one structural necessary condition of C17, not the contracts themselves: (R1) the tie-break and cursor-advance tables of the "
      "merge step (left run on {Less,Equal}), the quick partition (before pivot on {Less} only), minArray/maxArray (replace on strict "
      "Greater/Less only, so the first extremal element wins) and the setInter/setUnion/setDiff walks ((advance a, advance b, emit) per ordering), "
      "on every CFG path. These branches sit behind the 30-element threshold and duplicate keys the UI tests do not reach. Permutation, "
      "orderedness and set algebra over values are value-level and not decided.",
      "Trusted: rustc MIR; the contract tables in rules/c17.py; pairs with C08 (comparison) and C10 (key loops).",
      "DESIGN.md §2 C17")
claim("C02",
      "MIR finite-domain decision tables of operator typing and receiver dispatch vs the Jsonnet specification",
      "Decides only the type-error clause of C02 ('when the specification makes the program fail [for a type reason], evaluation fails', and "
      "conversely): (R1) the 19x7x7 binary-operator typing table, (R1b) each numeric operator applies its own machine operation, (R2) the 4x7 "
      "unary table, (R3) receiver/condition dispatch of index, field, call, if, assert, comprehension sources, computed field names, super "
      "index and `in super`, each exhaustively over operand variants and CFG paths. The values programs evaluate to are NOT decided: no "
      "reference semantics is in reach of static analysis.",
      "Trusted: rustc MIR; Jsonnet specification typing table transcribed in rules/c02.py. Value-level semantics stay with the repository's tests.",
      "DESIGN.md §2 C02")
claim("C01",
      "instance-level call-graph SCC / ownership-cycle analysis, exit-code decision table, who-may-call, concrete-key bound on fmt arguments, origin analysis of call argument vectors",
      "Decides structural necessary conditions of C01, not 'no panic on any input': (R1) no native recursion reachable from the public API "
      "(whole-workspace instance call graph with closures, stored fn pointers and trait objects; two recorded known findings: parser and "
      "analyzer recursion) and no recursive drop glue, so evaluation/manifestation/comparison cannot exhaust the native stack; (R2) exit "
      "status is exactly {0,1,2} by main's mapping and nobody calls process::exit/abort; (R3) run-time width/precision passed to core::fmt "
      "is bounded by u16::MAX on every path; (R4) byte indices into strings are boundary-exact (UNITS); (R5) every call site of execute_call "
      "passes an argument vector produced by the parameter check (directly or through a state whose constructors are fed that way), so the "
      "builtin dispatcher's try_into().unwrap() and parameter lookups cannot panic on a function value of the wrong arity; (R6) unsafe code is "
      "forbidden in all crates. Evaluator data-stack balance, index and arithmetic "
      "panics and unreachable!() reachability are not decided.",
      "Trusted: rustc MIR and Instance::try_resolve; dependencies are leaves (their own recursion/totality assumed); fn-pointer and dyn "
      "calls are over-approximated by address-taken functions / all impls.",
      "DESIGN.md §2 C01")
claim("C06",
      "path-sensitive finiteness typestate over MIR (gates refine on branch edges) with interprocedural fixpoint",
      "Decides the first sentence of C06 structurally: (R1) every f64 that becomes a Jsonnet number (all `ValueData::Number(x)` construction "
      "sites of rsjsonnet-lang) is finite on every CFG path, by definition (finite literal, int->float, finite-preserving std call, payload of "
      "an existing number, finite/non-zero-count quotient) or because a finiteness gate (check_number_value(x)?, is_finite, classify) dominates "
      "it on that path; f64 parameters, State payload fields and Result/Option-wrapped returns are handled by an optimistic interprocedural "
      "fixpoint. (R2) partial_cmp().unwrap() only sees number payloads. (R3) text->f64 only via <f64 as FromStr>, f64->text in manifest code "
      "only via Display. Correct rounding and shortest round-trip are delegated to std and not decided.",
      "Trusted: rustc MIR; std axioms listed in evidence (floor/ceil/trunc/round/abs/copysign/min/max/clamp preserve finiteness; frexp mantissa); "
      "public constructor Value::number is the library boundary.",
      "DESIGN.md §2 C06")
claim("C10",
      "who-may-construct/write/read queries, weighted-CFG (push/delay) balance analysis with callee summaries, ThunkState decision table, call-graph SCCs, state-push graph with trace-item coverage (zero-weight cycle search)",
      "Decides structural necessary conditions of C10: (R1) the frame counter changes only through push_trace_item/delay_trace_item and the two "
      "trace-item states, max_stack is read only by the single strict limit test that every evaluator iteration passes and whose true edge is "
      "StackOverflow (so raising the limit can change nothing else); (R2) in every Evaluator method no delay precedes its push and no loop has a "
      "positive net number of pushed trace items, so the counter measures nesting and never the number of sibling elements; (R3) an in-progress "
      "thunk is reported as infinite recursion, a finished one is not re-evaluated; (R4) no native recursion in evaluator/data/gc code; (R5) in the "
      "state-push graph with trace-item coverage, a handler that takes a container from the value stack and forces its elements without a "
      "trace item is never re-entered frame-free by the states it pushes (no descent into a self-containing or deeply nested value without a "
      "counted frame). Nesting through expression evaluation beyond R2/R5, `tailstrict` tail calls (deliberately uncounted) and the exact "
      "off-by-one are not decided.",
      "Trusted: rustc MIR; callee summaries computed over non-error return paths; the outer state-machine loop of run is not a per-element loop.",
      "DESIGN.md §2 C10")
claim("C03",
      "ownership-graph obligations + per-variant path walk of every GcTrace impl with origin attribution; type-graph and who-may-X closure",
      "Decides the tracing contract and rooting discipline the collector's exactness rests on, not the collection algorithm: (R1) for every "
      "heap type, every field that owns a Gc handle is forwarded to the tracer by exactly one call site on every path of its variant (a "
      "missing trace leaks cyclic garbage, a double trace lets a live root be reclaimed; per-element loops over containers are recognised); "
      "(R2) no heap type owns a GcView or reaches a handle through Rc/Arc/&; (R3) handle and collector types are crate-private, GcBox is "
      "built only by the allocator, its counters are written only in the gc module, all GcTrace impls are local; (R4) the sweep resets "
      "visits and mark of survivors and only the two visitors and gc() write them; (R5) collections start only between evaluator steps, "
      "while loading the stdlib or from the public API. Schedule-independence of outcomes and the count/mark/sweep algorithm are behavioural "
      "and not decided.",
      "Trusted: rustc MIR and type information; std Weak/Rc semantics. With R1-R3 a collection can differ from 'never collect' only through "
      "the algorithm in GcContext::gc, which stays with the repository's gc unit tests.",
      "DESIGN.md §2 C03")
claim("C18",
      "unit inference (Bytes/Chars/User/Trunc) over MIR integer quantities with unification and sink rules; who-calls table of code-point primitives",
      "Decides the first sentence of C18 structurally: (R1) in every string-handling function of rsjsonnet-lang no integer quantity is related "
      "both to a byte length/offset and to a code-point count, byte quantities never reach code-point positions (nth/skip/take over chars()) and "
      "never become Jsonnet numbers (closures mapped over find() results included); (R2) the code-point builtins iterate chars() and take no "
      "byte/UTF-16 view; (R3) byte indices into strings are untruncated byte quantities (no char-boundary panic). The split/join/strip/replace "
      "identities are delegated to std and not decided.",
      "Trusted: rustc MIR; std str API semantics (len/find/char_indices in bytes, chars().count() in code points); strings produced by numeric "
      "formatting are ASCII. Documented miss: `offset +- constant` after a search is accepted.",
      "DESIGN.md §2 C18")
claim("C19",
      "MIR decision tables of the format-directive parser and dispatcher; unit inference for widths; concrete-key bound on fmt arguments; concrete-cursor walk of the argument state machine",
      "Decides structural clauses of C19, not digit-exact rendering: (R1) the conversion-letter table over every interval class of `char`, the "
      "flag-character table, and the ConvType x value-type dispatch (numeric conversions reject non-numbers); (R2) field widths are counted in "
      "code points (no byte/char mixing in the padding arithmetic); (R3) every run-time width/precision reaching core::fmt is bounded and `*` "
      "values go through the exact u32 conversion, never an `as` cast; (R4) an argument is consumed only behind the cursor<len guard and "
      "left-over arguments are an error.",
      "Trusted: rustc MIR; the printf directive alphabet in rules/c19.py; core::fmt's u16 limit for width/precision. Rounding, exponent form and "
      "%g shape are value-level and not decided.",
      "DESIGN.md §2 C19")
claim("C20",
      "MIR decision table of the JSON string lexer vs RFC 8259; unit inference for byte indices; finiteness typestate; who-calls of the object builder",
      "Decides structural clauses of C20, not agreement with the standard functions: (R1) std.parseJson's string lexer accepts exactly the raw "
      "characters RFC 8259 §7 allows and maps exactly the escape letters \" \\ / b f n r t, whitespace is {space,tab,LF,CR}, digit classes are "
      "0-9/1-9 (tables over every interval class of `char`); (R2) the radix parsers never slice the digit string at a non-boundary; (R3) numbers "
      "parsed from JSON/YAML/radix text pass a finiteness gate before becoming values; (R4) both document parsers build objects only through the "
      "fallible insert whose failure becomes a repeated-field error.",
      "Trusted: rustc MIR; RFC 8259 tables in rules/c20.py; saphyr-parser (YAML events) is an external leaf. Base64/UTF-8/digest values, "
      "decoder-inverts-encoder and YAML/JSON agreement are value-level and not decided.",
      "DESIGN.md §2 C20")
claim("C15",
      "MIR decision tables of the precedence-climbing state machine (level chain, level x token membership, continuation level) vs the Jsonnet precedence table",
      "Decides the first clause of C15 structurally: (R1) the precedence chain LogicOr<...<Mul<Unary, for every level and every simple token "
      "kind the operator produced (exactly the level's own operators), that the same level continues after an operator and the right operand is "
      "parsed one level tighter (left associativity), the loosest level as entry, and the unary operator table; (R2) ParseError::Expected is "
      "only built by report_expected from the current token's span. Print/re-parse stability is not decided (the repository has no printer), "
      "nor is span containment or the slice grammar.",
      "Trusted: rustc MIR; Jsonnet precedence table in rules/c15.py.",
      "DESIGN.md §2 C15")
claim("C07",
      "origin analysis (with base-argument identity) of layer contributions and cache fields; per-layer visibility decision tables over MIR",
      "Decides three structural necessary conditions of C07, not the algebraic laws over values: (R1) lhs+rhs builds its layers as the ordered "
      "concatenation clone(rhs.self), clone(rhs.supers), clone(lhs.self), clone(lhs.supers) and nothing else, and field removal stacks its "
      "marker on the unchanged sequence (associativity of + on layers is then associativity of list concatenation); (R2) every derived object "
      "gets a fresh fields_order and unchecked asserts, cloned layers a fresh env, cloned expression fields a fresh thunk (so self/super are "
      "late-bound to the final object); (R3) the per-layer visibility decision of has_visible_field over {absent, default, hidden, "
      "forced-visible, removed}, the field-state mapping and the visible filter; (R3b) in the merge of get_fields_order every state that a deeper "
      "field can still change also reacts to a removal marker (the list used by manifestation/length/objectFields hides what the single-name "
      "lookups hide); R1 also checks that a removal marker's depth equals the number of layers below it on every path. Other layer-index "
      "arithmetic and value-level associativity are not decided.",
      "Trusted: rustc MIR; the Jsonnet visibility rule transcribed in rules/c07.py.",
      "DESIGN.md §2 C07")
claim("C09",
      "CFG edge-dominance of guards over IR construction with origin equality; binder-insertion/duplicate-check pairing; ENVFLOW abstract interpretation of static environments vs the spec scoping table",
      "Decides C09 structurally on the analyzer: (R1) variable IR nodes are built only behind env.vars.contains(<same name>), self/$/super "
      "nodes only behind env.is_obj (every path passes the guard's true edge), and only the analyzer builds them — the evaluator's unchecked "
      "lookups rest on exactly these guards; (R2) every local/parameter/object-local binder insertion sits on the vacant arm of a per-scope "
      "duplicate check whose occupied arm is the matching error, static field names are checked, positional-after-named and non-literal import "
      "paths (3 import kinds x all operand kinds) are errors; (R3) for all ~45 analysed AST positions the environment argument (creation, binder "
      "lists with all/previous qualifier, is_obj) equals the specification's scoping table, including positions no test exercises (computed "
      "field names see the outer scope only; a `for` source does not see its own variable); every table row must be analysed.",
      "Trusted: rustc MIR; the scoping table transcribed from the Jsonnet specification in rules/c09.py. The evaluator's run-time environments are not compared.",
      "DESIGN.md §2 C09, Appendix C")
claim("C04",
      "thunk typestate decision tables + who-may-mutate; IRFLOW whole-crate field-based flow graph of IR references with must-pass-through-thunk reachability",
      "Decides the mechanism behind C04, not the rewrite-invariance consequence: (R1) ThunkData.state is private and mutated only by switch_state "
      "(Pending -> InProgress handing the payload out once; Done/InProgress untouched) and set_done (requires InProgress, writes Done), set_done "
      "is called only by the GotThunk arm and the frame carries the very thunk that was taken: each delayed expression runs at most once; (R2) "
      "every lazy IR position (local binds, array items, positional/named arguments, parameter defaults, object fields and locals, comprehension "
      "bodies) reaches State::Expr only through a PendingThunk node in the whole-crate flow graph (closures bound through generic Fn parameters "
      "included), and does reach one: unused parts are never run; (R3) arguments are forced before a call only under `tailstrict`; (R4) the "
      "functions that allocate the pending thunks of an object's locals / field values run only below a once-cell initialiser, so an object "
      "local or field is one delayed expression per object.",
      "Trusted: rustc MIR; the laziness table transcribed from the Jsonnet specification (rules/c04.py:LAZY). The flow graph is field-based and "
      "flow-insensitive (sound over-approximation of stored data). Builtins' internal evaluation order is not decided.",
      "DESIGN.md §2 C04")
claim("C12",
      "all-paths effect-order walk of the CLI entry (unconstrained and with each fallible step forced to fail); who-may-call; io::Result inspection; mode-flag decision table",
      "Decides the structural core of C12: (R1) every success path of main_inner ends with exactly one final write (stdout or -o) and nothing "
      "is computed after any file/stream write; stdout has a single writer in the three crates; (R2) every io::Result in the CLI and front-end is "
      "inspected; (R3) for each of the fallible load/eval/manifest/ext-var steps, forcing it to fail leads to RunError::Generic with no write "
      "afterwards; (R4) RunError::Usage has exactly its two sources and main maps Ok/Generic/Usage to 0/1/2; (R5) value_to_repr's decision table "
      "over (-S, -y, --no-trailing-newline): newline iff the flag is absent, `---`/item/newline per item and a closing `...` for -y. Byte-exact "
      "relations between modes, OS-level stream failures and clap's grammar are not decided.",
      "Trusted: rustc MIR; std::fs::write / Stdout::write_all report failures through their io::Result.",
      "DESIGN.md §2 C12")
claim("C13",
      "origin analysis of the candidate iterator, cache keys and delivered payloads; edge dominance; forced-failure walks of the import callbacks and evaluator arms",
      "Decides C13 structurally: (R1) relative imports try the importing file's directory then the library directories in stored order (the chain "
      "order of the candidate iterator), first existing join(dir, path) wins, absolute paths only test themselves, and the CLI registers -J "
      "right-most first; (R2) the source cache is looked up and filled with the canonicalized path, filled only on the successful-load edge, and a "
      "hit neither reads nor loads again; (R3) importbin's payload derives from fs::read only, importstr's through from_utf8_lossy only, bytes "
      "become numbers by u8->f64, std.thisFile is the display form of the path as given; (R4) each failing step of the three callbacks returns "
      "ImportError and each evaluator import arm turns it into ImportFailed with the expression's span.",
      "Trusted: rustc MIR; std::path / std::fs semantics (canonicalize, exists, symlinks). Import cycles are not decided.",
      "DESIGN.md §2 C13")
claim("C16",
      "per-variant walks of every render function with tagged span fields (label origin attribution); who-may-construct SpanId; assertion dominance in the span constructor; guard confinement of trace cropping",
      "Decides structural clauses of C16: (R1) each of the ~85 lexical/syntax/static/run-time error variants and stack-trace items has a "
      "rendering arm that builds a message of the right kind, renders it, and builds a label from every SpanId / Option<SpanId> field the variant "
      "carries (closures over optional spans included), so the report can name file:line:col of each; (R2) SpanId is only made by "
      "SpanManager::intern_span, whose `start <= end` and two in-context assertions dominate both encodings, and make_surrounding_span goes "
      "through it with its own checks; (R3) the --max-trace cropping slices are confined to the `len > max_trace` branch. The bit-packing round "
      "trip, line/column values and rendering inside sourceannot are not decided.",
      "Trusted: rustc MIR. A bad span is a diagnosed assertion (C01 territory), never a wrong location.",
      "DESIGN.md §2 C16")
claim("C11",
      "call-graph reachability from the evaluator's error exit to thunk-state mutators; who-may-write/construct restricted to request-reachable code; paired interned-vs-absent walks",
      "Decides three structural clauses of C11, not history-independence of values: (R1) the error exit of Evaluator::eval must pass a step that "
      "can reset thunks left `in progress` (today it does not: recorded known finding with a library-API reproduction); the success exit "
      "asserts all stacks empty; (R2) the Evaluator is constructed fresh per request from constants/new containers, and among all functions "
      "reachable from a request only the collector bookkeeping and span registry fields of Program are written; (R3) at every get_interned site "
      "(three evaluator arms and five builtins) a never-interned name yields exactly the possible outcomes of an interned-but-absent one, so "
      "strings interned by earlier requests are unobservable.",
      "Trusted: rustc MIR; the interner and arena are append-only. Order-independence of results in general is behavioural and not decided.",
      "DESIGN.md §2 C11")
