# Per-property claims (exec'd by gen_manifest.py).
claim("C05",
      "MIR finite-domain decision table of the string escaper vs RFC 8259 §7; taint/provenance of output sinks",
      "Decides structural necessary conditions of C05, not the round trip itself: (R1) for every Unicode scalar value the "
      "JSON/Python/TOML escaper emits only forms RFC 8259 §7 allows (exhaustive over the interval classes induced by the "
      "constants the code compares against, on every CFG path); (R5) bare keys only inside the TOML/YAML bare alphabets. "
      "A static decision table is the right level because the escaper's behaviour is a pure function of one code point and the "
      "suite samples only a handful of characters.",
      "Trusted: rustc nightly MIR construction; RFC 8259 §7 / TOML 1.0 tables transcribed in rules/c05.py; core::fmt template "
      "encoding of the pinned toolchain; <f64 as Display>. Not decided: numeric text, YAML/TOML document structure, round-trip equality.",
      "DESIGN.md §2 C05")
